"""Always-on structural invariants attached from the harness with icontract
(DESIGN §2.7).  ``install()`` decorates the repository's classes in place (in
this process and, through fork, its children); every condition counts its
evaluations so that a check can tell "held" from "never evaluated"."""

from __future__ import annotations

import numpy as np

COUNTS: dict[str, int] = {}
_installed = False


class InvariantBroken(AssertionError):
    pass


def _count(name):
    COUNTS[name] = COUNTS.get(name, 0) + 1


def drain() -> dict:
    out = {f"inv:{k}": v for k, v in COUNTS.items()}
    COUNTS.clear()
    return out


# -- conditions (named functions with parameter ``self``) -------------------
def binning_edges_increasing(self):
    _count("Binning")
    e = self.edges
    return (
        isinstance(e, np.ndarray) and e.ndim == 1 and len(e) >= 2
        and bool(np.all(np.diff(e) > 0)) and str(self.closed) in ("left", "right")
    )


def patched_counts_shape(self):
    _count("PatchedCounts")
    c = self.counts
    return c.ndim == 3 and c.shape[0] == len(self.binning) and c.shape[1] == c.shape[2]


def patched_sum_weights_shape(self):
    _count("PatchedSumWeights")
    a, b = self.sum_weights1, self.sum_weights2
    return a.ndim == 2 and a.shape == b.shape and a.shape[0] == len(self.binning)


def normalised_counts_consistent(self):
    _count("NormalisedCounts")
    c, s = self.counts, self.sum_weights
    return (
        c.counts.shape[1] == s.sum_weights1.shape[1]
        and len(c.binning) == len(s.binning)
    )


def sampled_data_shape(self):
    _count("SampledData")
    n = len(self.binning)
    return self.data.shape == (n,) and self.samples.ndim == 2 and self.samples.shape[1] == n


def metadata_fields(self):
    _count("Metadata")
    return (
        int(self.num_records) >= 0
        and np.isfinite(self.sum_weights)
        and self.center.data.shape == (1, 2)
        and bool(np.all(np.isfinite(self.center.data)))
        and self.radius.data.shape == (1,)
        and bool(np.all(np.isfinite(self.radius.data)))
        and bool(np.all(self.radius.data >= 0))
    )


def corrfunc_members(self):
    _count("CorrFunc")
    dd = self.dd
    for name in ("dr", "rd", "rr"):
        m = getattr(self, name)
        if m is None:
            continue
        if m.counts.counts.shape != dd.counts.counts.shape or len(m.binning) != len(dd.binning):
            return False
    return True


def _err(name):
    def make(self):
        return InvariantBroken(f"invariant {name} broken on {type(self).__name__}")

    return make


def install():
    global _installed
    if _installed:
        return
    from vlib import deps

    deps.ensure()
    import icontract

    from yaw.binning import Binning
    from yaw.catalog.patch import Metadata
    from yaw.correlation.corrdata import SampledData
    from yaw.correlation.corrfunc import CorrFunc
    from yaw.correlation.paircounts import NormalisedCounts, PatchedCounts, PatchedSumWeights

    for cond, cls in [
        (binning_edges_increasing, Binning),
        (patched_counts_shape, PatchedCounts),
        (patched_sum_weights_shape, PatchedSumWeights),
        (normalised_counts_consistent, NormalisedCounts),
        (sampled_data_shape, SampledData),
        (metadata_fields, Metadata),
        (corrfunc_members, CorrFunc),
    ]:
        icontract.invariant(cond, error=_err(cond.__name__))(cls)
    _installed = True
