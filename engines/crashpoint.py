"""Crash-point injector (DESIGN §2.5): kill a workload with SIGKILL exactly on
entry to its k-th file-system system call, using ``strace -p <pid> -e inject``
attached to a forked, pipe-blocked child of the warm harness process.

Phase 1 ``trace()`` records the workload's file-system calls (with ``-y`` path
annotations) and returns the operations touching ``root``.  strace's ``when``
counter is per system-call name per tracee and only sees calls that pass the
``-P <path>`` filter, so operation k is addressed as "the j-th <name> on one of
the relevant paths" (robust against calls on unrelated descriptors).
Phase 2 ``crash_at()`` replays the workload and kills it on entry to that call.
The injector checks itself: the relevant operations of a killed run must be a
prefix of the phase-1 list, otherwise the point is reported inconclusive.
"""

from __future__ import annotations

import os
import re
import subprocess
import time
from dataclasses import dataclass
from pathlib import Path

NAMES = ("openat,mkdir,mkdirat,write,pwrite64,writev,unlink,unlinkat,rmdir,rename,renameat,renameat2,"
         "ftruncate,truncate,close,link,linkat,symlink,symlinkat")
_LINE = re.compile(r"^(\w+)\((.*)$")
_PATHS = re.compile(r'<([^<>]*)>|"((?:[^"\\]|\\.)*)"')


@dataclass
class Op:
    index: int  # position among the relevant operations
    name: str
    nth: int  # 1-based count of this syscall name in the whole trace
    text: str

    def key(self):
        # the operation without volatile details (fd numbers, byte counts are kept out)
        paths = tuple(p for p in _paths(self.text))
        return (self.name, paths)


def _paths(text):
    out = []
    for m in _PATHS.finditer(text):
        p = m.group(1) if m.group(1) is not None else m.group(2)
        if p and p.startswith("/"):
            out.append(p)
    return out


def _under(p: str, root: str) -> bool:
    """root: a directory (the path itself or anything below it) or, ending in '*', a plain path prefix."""
    if root.endswith("*"):
        return p.startswith(root[:-1])
    return p == root or p.startswith(root + "/")


def parse_trace(text: str, root: str):
    """All syscall lines -> relevant ops (touching a path under root)."""
    counts = {}
    ops = []
    for line in text.splitlines():
        m = _LINE.match(line)
        if not m:
            continue
        name = m.group(1)
        if any(_under(p, root) for p in _paths(line)):
            # counted among the *relevant* calls only: phase 2 runs strace with -P <every relevant
            # path>, and the injection counter only sees calls that pass the path filter, so calls
            # on unrelated descriptors (pipes of the lscpu subprocess, ...) cannot shift it
            counts[name] = counts.get(name, 0) + 1
            ops.append(Op(len(ops), name, counts[name], line.split(" = ")[0][:300]))
    return ops


def relevant_paths(ops, root: str):
    out = set()
    for o in ops:
        for p in _paths(o.text):
            if _under(p, root):
                out.add(p)
    return sorted(out)


def _run_under_strace(workload, tracefile: Path, inject=None, wall_cap=120.0, paths=()):
    """Fork a child that waits on a pipe, attach strace, release, wait.  Returns the wait status."""
    r, w = os.pipe()
    pid = os.fork()
    if pid == 0:
        try:
            os.close(w)
            os.read(r, 1)
            os.close(r)
            devnull = os.open(os.devnull, os.O_RDWR)
            os.dup2(devnull, 1)
            os.dup2(devnull, 2)
            workload()
        finally:
            os._exit(0)
    os.close(r)
    cmd = ["strace", "-p", str(pid), "-y", "-s", "0", "-e", f"trace={NAMES}", "-o", str(tracefile)]
    for p in paths:
        cmd += ["-P", p]
    if inject is not None:
        cmd += ["-e", f"inject={inject[0]}:signal=SIGKILL:when={inject[1]}"]
    st = subprocess.Popen(cmd, stdout=subprocess.DEVNULL, stderr=subprocess.DEVNULL)
    t0 = time.time()
    attached = False
    while time.time() - t0 < 10:
        try:
            status = open(f"/proc/{pid}/status").read()
        except OSError:
            break
        if "TracerPid:\t0" not in status:
            attached = True
            break
        if st.poll() is not None:
            break
        time.sleep(0.001)
    if not attached:
        os.kill(pid, 9)
        os.waitpid(pid, 0)
        st.kill()
        raise RuntimeError("strace did not attach")
    os.write(w, b"x")
    os.close(w)
    t0 = time.time()
    while True:
        wpid, status = os.waitpid(pid, os.WNOHANG)
        if wpid == pid:
            break
        if time.time() - t0 > wall_cap:
            os.kill(pid, 9)
            os.waitpid(pid, 0)
            st.wait()
            return None
        time.sleep(0.002)
    try:
        st.wait(timeout=10)
    except subprocess.TimeoutExpired:
        st.kill()
    return status


def trace(workload, root: Path, tracefile: Path):
    status = _run_under_strace(workload, tracefile)
    text = Path(tracefile).read_text() if Path(tracefile).exists() else ""
    ops = parse_trace(text, str(root))
    return status, ops


def crash_at(workload, root: Path, tracefile: Path, op: Op, expected_prefix, later_ops=None):
    """Returns (ok, info): ok False when the injector's self-check failed."""
    paths = relevant_paths(list(expected_prefix) + [op] + list(later_ops or []), str(root))
    status = _run_under_strace(workload, tracefile, inject=(op.name, op.nth), paths=paths)
    if status is None:
        return False, "watchdog"
    text = Path(tracefile).read_text() if Path(tracefile).exists() else ""
    killed = "killed by SIGKILL" in text
    ops = parse_trace(text, str(root))
    if not killed:
        return False, f"not killed (status {status}); {len(ops)} ops"
    # the last relevant line is the call that was entered and killed
    seen = [o.key() for o in ops[:-1]]
    want = [o.key() for o in expected_prefix]
    if seen != want or (ops and ops[-1].key() != op.key()):
        return False, f"trace of the killed run is not a prefix of the reference trace ({len(seen)} vs {len(want)})"
    return True, "ok"
