"""FakePool: an in-process stand-in for ``multiprocessing.Pool`` whose
``imap_unordered`` completes the tasks in a permutation chosen by the harness
(DESIGN §2.3).  It replaces the *name* ``multiprocessing`` seen by
``yaw.utils.parallel`` only; ``iter_unordered``, ``ParallelJob`` and all
consumers are the real code.

``imap_unordered`` promises nothing about order, so its behaviour set is "any
permutation of the results": the double only ever produces such permutations
(it never drops, duplicates or alters a result), i.e. it cannot raise an alarm on
code that is correct for every completion order.
"""

from __future__ import annotations

import itertools
import multiprocessing as _real_mp

import numpy as np


class Schedule:
    """Chooses the completion order of every parallel map of one run.

    ``choose(k, T)`` returns the permutation for the k-th call of
    ``imap_unordered`` with T tasks.  ``log`` records (k, T, permutation)."""

    def __init__(self, policy="random", seed=0, explicit=None):
        self.policy = policy
        self.rng = np.random.default_rng(seed)
        self.explicit = explicit  # dict: T -> permutation tuple, applied to every call with that T
        self.calls = 0
        self.log = []

    def choose(self, T):
        k = self.calls
        self.calls += 1
        if self.explicit is not None and T in self.explicit:
            perm = list(self.explicit[T])
        elif self.policy == "identity":
            perm = list(range(T))
        elif self.policy == "reverse":
            perm = list(range(T))[::-1]
        elif self.policy == "rotate":
            r = 1 + int(self.rng.integers(max(T - 1, 1)))
            perm = list(np.roll(np.arange(T), r))
        elif self.policy == "transpose":
            perm = list(range(T))
            if T > 1:
                i = int(self.rng.integers(T - 1))
                perm[i], perm[i + 1] = perm[i + 1], perm[i]
        elif self.policy == "first-last":
            perm = list(range(1, T)) + [0] if T > 1 else [0]
        else:
            perm = list(self.rng.permutation(T))
        self.log.append((k, T, tuple(int(p) for p in perm)))
        return perm


class _FakePool:
    def __init__(self, schedule, processes=None):
        self.schedule = schedule
        self.processes = processes

    def __enter__(self):
        return self

    def __exit__(self, *a):
        return False

    def imap_unordered(self, func, iterable, chunksize=1):
        tasks = list(iterable)
        perm = self.schedule.choose(len(tasks))
        for i in perm:  # completion order == execution order == the chosen permutation
            yield func(tasks[i])

    def map(self, func, iterable, chunksize=None):
        return [func(x) for x in iterable]

    def close(self):
        pass

    def join(self):
        pass

    def terminate(self):
        pass


class FakeMultiprocessing:
    """Namespace object put in place of ``yaw.utils.parallel.multiprocessing``."""

    def __init__(self, schedule):
        self.schedule = schedule

    def Pool(self, processes=None, *a, **kw):
        return _FakePool(self.schedule, processes)

    def cpu_count(self):
        return 64

    def __getattr__(self, name):
        return getattr(_real_mp, name)


class installed:
    """Context manager: install a FakePool with the given schedule and make the
    library believe ``workers`` processes are available."""

    def __init__(self, schedule, workers=4):
        self.schedule = schedule
        self.workers = workers

    def __enter__(self):
        from yaw.utils import parallel

        self._parallel = parallel
        self._saved = (parallel.multiprocessing, parallel._num_processes)
        parallel.multiprocessing = FakeMultiprocessing(self.schedule)
        parallel._num_processes = lambda: self.workers
        return self.schedule

    def __exit__(self, *a):
        self._parallel.multiprocessing, self._parallel._num_processes = self._saved
        return False


def all_permutations(T):
    return list(itertools.permutations(range(T)))
