"""Stand-in for mpi4py used by the C06 monitor (DESIGN §2.4).  Only the subset
of the API that yet_another_wizz uses is provided, see MPI.py."""
