"""Simulated MPI world with a deterministic, seeded scheduler (DESIGN §2.4).

Ranks are threads of one process, each running the same driver function; only
one rank runs at a time and every communication call is a yield point at which
a seeded scheduler chooses (a) which runnable rank continues and (b) for a
posted receive, which of the *matchable* messages it gets: per (sender,
communicator) FIFO among the messages matching the receive's tag (the
standard's non-overtaking rule), free across senders (exactly the freedom the
standard gives wildcard receives).  Standard-mode sends complete eagerly or only
when matched (rendezvous), chosen per run; ``ssend`` always waits for the match.

Termination is decided logically: no runnable rank, no enabled action and some
rank not finished == deadlock (reported with every rank's pending operation).

The double only produces behaviours a conforming MPI may produce: it never
reorders same-sender messages with the same matching pattern, never drops or
duplicates a message, completes collectives only when all members have arrived.
Lower-case calls pickle the payload (the receiver gets a copy).
"""

from __future__ import annotations

import pickle
import random
import threading
import traceback

ANY_SOURCE = -1
ANY_TAG = -1
UNDEFINED = -32766
COMM_NULL = None

_tls = threading.local()
_DEFAULT_SIZE = 2  # what the importing (main) thread sees: > 1 selects the MPI code paths


class DeadlockError(RuntimeError):
    pass


class WorldAborted(BaseException):
    """Raised inside rank threads when the world is torn down (deadlock / failure elsewhere)."""


def Get_processor_name():
    """Per-rank node name of the current world's placement (single node outside a world)."""
    w = getattr(_tls, "world", None)
    if w is None or not w.node_names:
        return "fakenode"
    return w.node_names[getattr(_tls, "rank", 0)]


class _Message:
    __slots__ = ("src", "tag", "payload", "seq", "sync", "consumed", "kind")

    def __init__(self, src, tag, payload, seq, sync, kind):
        self.src, self.tag, self.payload, self.seq, self.sync = src, tag, payload, seq, sync
        self.consumed = False
        self.kind = kind


class World:
    """One simulated run of ``size`` ranks."""

    def __init__(self, size, seed=0, policy="random", send_mode="eager", max_steps=2_000_000, node_names=None):
        self.size = size
        self.node_names = list(node_names) if node_names else None  # placement of the ranks on nodes
        self.rng = random.Random(seed)
        self.policy = policy
        self.send_mode = send_mode
        self.lock = threading.Condition()
        self.current = None  # rank holding the baton
        self.pending = {}  # rank -> dict(op=..., enabled=callable)
        self.done = set()
        self.failed = {}  # rank -> traceback
        self.results = {}
        self.mailboxes = {}  # (comm_id, dest_world_rank) -> list of _Message
        self.seq = 0
        self.step = 0
        self.max_steps = max_steps
        self.events = []  # communication event log
        self.decisions = []  # scheduler decisions (replay / distinctness)
        self.aborted = None
        self.comm_world = Comm(self, 0, list(range(size)))
        self._comm_ids = 1
        self.collectives = {}  # comm_id -> state
        self.unreceived = 0

    # ---- scheduling ---------------------------------------------------------------------
    def log(self, **ev):
        ev["step"] = self.step
        self.events.append(ev)

    def _enabled_ranks(self):
        return [r for r, p in self.pending.items() if p["enabled"]()]

    def _pick_next(self):
        """Choose the next rank to run among those whose pending operation is enabled."""
        cand = sorted(self._enabled_ranks())
        if not cand:
            return None
        if self.policy == "fifo":
            choice = cand[0]
        elif self.policy == "lifo":
            choice = cand[-1]
        elif self.policy.startswith("starve"):
            victim = int(self.policy.split(":")[1]) % self.size
            others = [c for c in cand if c != victim]
            choice = self.rng.choice(others) if others else cand[0]
        else:
            choice = self.rng.choice(cand)
        self.decisions.append(("run", choice, len(cand)))
        return choice

    def yield_(self, rank, op, enabled):
        """Called by rank threads at every communication call: park until scheduled again and the
        operation is enabled."""
        with self.lock:
            self.step += 1
            if self.step > self.max_steps:
                self._abort("step limit reached")
            self.pending[rank] = dict(op=op, enabled=enabled)
            # only the baton holder (or the last rank to park when nobody holds it) schedules
            if self.current == rank or (self.current is None and self._all_parked()):
                self._handoff()
            while self.current != rank:
                if self.aborted:
                    raise WorldAborted(self.aborted)
                self.lock.wait()
            if self.aborted:
                raise WorldAborted(self.aborted)
            del self.pending[rank]

    def _all_parked(self):
        alive = [r for r in range(self.size) if r not in self.done]
        return all(r in self.pending for r in alive)

    def _handoff(self):
        nxt = self._pick_next()
        if nxt is None:
            alive = [r for r in range(self.size) if r not in self.done]
            if alive and all(r in self.pending for r in alive):
                ops = {r: self.pending[r]["op"] for r in alive}
                self._abort(f"DEADLOCK: no rank can proceed; pending operations: {ops}")
            self.current = None
        else:
            self.current = nxt
        self.lock.notify_all()

    def _abort(self, why):
        if not self.aborted:
            self.aborted = why
        self.lock.notify_all()
        raise WorldAborted(why)

    # ---- rank threads --------------------------------------------------------------------
    def run(self, func, wall_cap=600.0):
        threads = []

        def body(rank):
            _tls.world = self
            _tls.rank = rank
            try:
                # wait for the first scheduling decision
                self.yield_(rank, "start", lambda: True)
                self.results[rank] = func(rank)
            except WorldAborted:
                pass
            except BaseException as e:  # noqa: BLE001
                tb = traceback.extract_tb(e.__traceback__)
                site = next((f"{f.filename.split('/')[-1]}:{f.name}" for f in reversed(tb) if "/src/yaw" in f.filename), None)
                self.failed[rank] = dict(type=type(e).__name__, message=str(e)[:300], site=site)
            finally:
                with self.lock:
                    self.done.add(rank)
                    self.pending.pop(rank, None)
                    if self.current == rank or (self.current is None and self._all_parked()):
                        try:
                            self._handoff()
                        except WorldAborted:
                            pass
                    self.lock.notify_all()

        for r in range(self.size):
            t = threading.Thread(target=body, args=(r,), daemon=True)
            threads.append(t)
            t.start()
        for t in threads:
            t.join(wall_cap)
        hung = [i for i, t in enumerate(threads) if t.is_alive()]
        self.unreceived = sum(1 for box in self.mailboxes.values() for m in box if not m.consumed)
        return dict(results=self.results, failed=self.failed, aborted=self.aborted, watchdog=hung,
                    unreceived=self.unreceived, steps=self.step)

    def new_comm_id(self):
        self._comm_ids += 1
        return self._comm_ids


def _world():
    return getattr(_tls, "world", None)


class Comm:
    """Communicator: ``members`` are world ranks in communicator-rank order."""

    def __init__(self, world, comm_id, members):
        self._world_ref = world
        self.comm_id = comm_id
        self.members = list(members)

    # COMM_WORLD pickles by reference (yaw broadcasts functools.partial objects holding it)
    def __reduce__(self):
        if self.comm_id == 0:
            return (_get_comm_world, ())
        raise pickle.PicklingError("cannot pickle a sub-communicator")

    @property
    def world(self):
        return _world() or self._world_ref

    def _me(self):
        return getattr(_tls, "rank", 0)

    def Get_size(self):
        w = _world()
        if w is None:
            return _DEFAULT_SIZE
        if self.comm_id == 0:
            return w.size
        return len(self.members)

    def Get_rank(self):
        w = _world()
        if w is None:
            return 0
        if self.comm_id == 0:
            return self._me()
        return self.members.index(self._me())

    def _members(self):
        w = _world()
        return list(range(w.size)) if self.comm_id == 0 else self.members

    # ---- point to point ----------------------------------------------------------------------
    def _post(self, obj, dest, tag, sync):
        w = self.world
        me = self._me()
        dest_w = self._members()[dest]
        payload = pickle.dumps(obj)
        kind = type(obj).__name__ if not isinstance(obj, type) else f"class:{obj.__name__}"
        with w.lock:
            w.seq += 1
            msg = _Message(me, tag, payload, w.seq, sync, kind)
            w.mailboxes.setdefault((self.comm_id, dest_w), []).append(msg)
            w.log(rank=me, op="ssend" if sync else "send", comm=self.comm_id, peer=dest_w, tag=tag, kind=kind, nbytes=len(payload))
        return msg

    def send(self, obj, dest, tag=0):
        w = self.world
        sync = w.send_mode == "rendezvous"
        msg = self._post(obj, dest, tag, sync)
        if sync:
            w.yield_(self._me(), f"send(dest={dest},tag={tag}) awaiting match", lambda: msg.consumed)
        else:
            w.yield_(self._me(), f"send(dest={dest},tag={tag})", lambda: True)

    def ssend(self, obj, dest, tag=0):
        w = self.world
        msg = self._post(obj, dest, tag, True)
        w.yield_(self._me(), f"ssend(dest={dest},tag={tag}) awaiting match", lambda: msg.consumed)

    def _candidates(self, me, source, tag):
        """Matchable messages: per sender the earliest unconsumed message matching (source, tag)."""
        box = self.world.mailboxes.get((self.comm_id, me), [])
        members = self._members()
        first = {}
        for m in box:
            if m.consumed:
                continue
            if tag not in (ANY_TAG, m.tag):
                continue
            if source != ANY_SOURCE and members[source] != m.src:
                continue
            if m.src not in first:
                first[m.src] = m
        return list(first.values())

    def recv(self, buf=None, source=ANY_SOURCE, tag=ANY_TAG, status=None):
        w = self.world
        me = self._me()
        w.yield_(me, f"recv(source={source},tag={tag})", lambda: bool(self._candidates(me, source, tag)))
        with w.lock:
            cand = sorted(self._candidates(me, source, tag), key=lambda m: m.seq)
            if w.policy == "sentinel-first":
                # adversary for end-of-stream protocols: prefer a sentinel class over data
                pick = next((m for m in cand if m.kind.startswith("class:")), None) or w.rng.choice(cand)
            elif w.policy == "newest-sender":
                pick = cand[-1]
            elif w.policy == "fifo":
                pick = cand[0]
            else:
                pick = w.rng.choice(cand)
            pick.consumed = True
            w.decisions.append(("match", me, pick.src, len(cand)))
            w.log(rank=me, op="recv", comm=self.comm_id, peer=pick.src, tag=pick.tag, kind=pick.kind, candidates=len(cand))
        return pickle.loads(pick.payload)

    # ---- collectives ---------------------------------------------------------------------------
    def _collective(self, name, contribution):
        """All members arrive; returns the list of contributions (by communicator rank)."""
        w = self.world
        me = self._me()
        members = self._members()
        with w.lock:
            st = w.collectives.setdefault(self.comm_id, dict(counter={}, rounds={}))
            k = st["counter"].get(me, 0)
            st["counter"][me] = k + 1
            rnd = st["rounds"].setdefault(k, dict(name=name, data={}, left=0))
            if rnd["name"] != name:
                w._abort(f"collective mismatch on comm {self.comm_id}: rank {me} calls {name}, others {rnd['name']}")
            rnd["data"][me] = contribution
            w.log(rank=me, op=name, comm=self.comm_id, round=k)
        w.yield_(me, f"{name}(comm={self.comm_id},round={k})", lambda: len(rnd["data"]) == len(members))
        return [rnd["data"][m] for m in members]

    def Barrier(self):
        self._collective("Barrier", None)

    def bcast(self, obj, root=0):
        me_c = self.Get_rank()
        data = self._collective("bcast", pickle.dumps(obj) if me_c == root else None)
        if me_c == root:
            return obj
        return pickle.loads(data[root])

    def Bcast(self, buf, root=0):
        import numpy as np

        me_c = self.Get_rank()
        arr_ = np.asarray(buf)
        if not (arr_.flags.c_contiguous or arr_.flags.f_contiguous):
            # mpi4py refuses strided buffers on the calling rank, before any communication
            raise ValueError("ndarray is not contiguous")
        data = self._collective("Bcast", np.array(buf, copy=True) if me_c == root else None)
        if me_c != root:
            src = data[root]
            arr = np.asarray(buf)
            if arr.shape != src.shape or arr.dtype != src.dtype:
                raise ValueError(f"Bcast buffer mismatch: {arr.shape}/{arr.dtype} vs {src.shape}/{src.dtype}")
            arr[...] = src

    def gather(self, obj, root=0):
        me_c = self.Get_rank()
        data = self._collective("gather", pickle.dumps(obj))
        if me_c == root:
            return [pickle.loads(d) for d in data]
        return None

    def Split(self, color=0, key=0):
        w = self.world
        me = self._me()
        data = self._collective("Split", (color, key, me))
        if color == UNDEFINED:
            return COMM_NULL
        group = sorted([(k, r) for (c, k, r) in data if c == color])
        members = [r for _, r in group]
        # every member must construct the same communicator id: derive it from the round
        with w.lock:
            ids = w.collectives[self.comm_id].setdefault("split_ids", {})
            sig = (tuple(members), w.collectives[self.comm_id]["counter"][me])
            if sig not in ids:
                ids[sig] = w.new_comm_id()
            cid = ids[sig]
        return Comm(w, cid, members)

    def Free(self):
        return None


class _WorldProxy(Comm):
    """COMM_WORLD: a single module-level object whose methods consult the calling thread's world."""

    def __init__(self):
        self._world_ref = None
        self.comm_id = 0
        self.members = []


COMM_WORLD = _WorldProxy()


def _get_comm_world():
    return COMM_WORLD
