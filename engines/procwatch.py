"""Run a workload in a forked child (own session / process group) under a
quiescence watchdog (DESIGN §2.6).

``run_forked(func)`` forks the warm harness process, the child calls
``func()`` and reports ``{"outcome": "returned", "value": ...}`` or
``{"outcome": "raised", "type": ..., "message": ...}`` through a result file.
The parent samples /proc for every process of the child's process group; when
all of them sleep and the group's cumulative CPU time has not advanced for
``quiet_samples`` consecutive samples while the child has not reported, the
group is *quiescent* (= "blocks forever", decided without a deadline).  A group
still burning CPU at the wall-clock cap is *inconclusive*.  The group is
always killed with SIGKILL afterwards.
"""

from __future__ import annotations

import faulthandler
import json
import os
import signal
import sys
import time
import traceback
from pathlib import Path


def _group_members(pgid: int):
    members = []
    for entry in os.listdir("/proc"):
        if not entry.isdigit():
            continue
        try:
            with open(f"/proc/{entry}/stat") as f:
                stat = f.read()
        except OSError:
            continue
        rpar = stat.rfind(")")
        fields = stat[rpar + 2:].split()
        # fields[0]=state, [2]=pgrp, [11]=utime, [12]=stime
        try:
            if int(fields[2]) == pgid:
                members.append((int(entry), fields[0], int(fields[11]) + int(fields[12])))
        except (IndexError, ValueError):
            continue
    return members


def kill_group(pgid: int):
    try:
        os.killpg(pgid, signal.SIGKILL)
    except ProcessLookupError:
        pass


def run_forked(func, *, workdir: Path, wall_cap: float = 120.0, sample: float = 0.5,
               quiet_samples: int = 16, tick_allowance: int = 2):
    """Returns dict(outcome=returned|raised|quiescent|inconclusive|died, ...)."""
    workdir = Path(workdir)
    res_path = workdir / f"result-{os.getpid()}-{time.monotonic_ns()}.json"
    stack_path = workdir / f"stack-{os.getpid()}-{time.monotonic_ns()}.txt"
    sys.stdout.flush()
    sys.stderr.flush()
    pid = os.fork()
    if pid == 0:  # ---- child
        try:
            os.setsid()
            devnull = os.open(os.devnull, os.O_RDWR)
            os.dup2(devnull, 0)
            log = os.open(str(workdir / "child.log"), os.O_WRONLY | os.O_CREAT | os.O_APPEND)
            os.dup2(log, 1)
            os.dup2(log, 2)
            stackf = open(stack_path, "w")
            faulthandler.enable(stackf)
            faulthandler.register(signal.SIGUSR1, file=stackf, all_threads=True)
            try:
                value = func()
                payload = dict(outcome="returned", value=value)
            except BaseException as e:  # noqa: BLE001
                tb = traceback.extract_tb(e.__traceback__)
                site = next((f"{Path(f.filename).name}:{f.name}" for f in reversed(tb) if "/repo/src/yaw" in f.filename), None)
                payload = dict(outcome="raised", type=type(e).__name__, message=str(e)[:300], site=site)
            tmp = str(res_path) + ".tmp"
            with open(tmp, "w") as f:
                json.dump(payload, f)
            os.replace(tmp, res_path)
        finally:
            os._exit(0)
    # ---- parent
    pgid = pid
    t0 = time.time()
    quiet = 0
    last_cpu = None
    outcome = None
    reaped = False
    next_sample = 0.0
    while True:
        if res_path.exists():
            outcome = json.loads(res_path.read_text())
            break
        if time.time() < next_sample:
            time.sleep(0.02)
            continue
        next_sample = time.time() + sample
        try:
            wpid, status = os.waitpid(pid, os.WNOHANG)
        except ChildProcessError:
            wpid = pid
            status = 0
        if wpid == pid:
            reaped = True
            if res_path.exists():
                outcome = json.loads(res_path.read_text())
            else:
                outcome = dict(outcome="died", status=status)
            break
        members = _group_members(pgid)
        cpu = sum(m[2] for m in members)
        all_sleeping = bool(members) and all(m[1] in ("S", "Z", "I") for m in members)
        # a quiet streak lasts while every process sleeps and the group's CPU time stays within
        # tick_allowance of its value at the start of the streak (pool housekeeping threads wake
        # every 0.1 s and cost about one tick per 20 s)
        if all_sleeping and last_cpu is not None and cpu - last_cpu <= tick_allowance:
            quiet += 1
        else:
            quiet = 0
            last_cpu = cpu
        if quiet >= quiet_samples:
            # witness: python stack of the main process
            # the other members of the group inherited the handler (same file): their stacks follow, one after
            # the other so that the dumps do not interleave
            for member_pid in [pid] + [m[0] for m in members if m[0] != pid]:
                try:
                    os.kill(member_pid, signal.SIGUSR1)
                    time.sleep(0.25)
                except ProcessLookupError:
                    pass
            stack = stack_path.read_text()[-16000:] if stack_path.exists() else ""
            outcome = dict(outcome="quiescent", processes=[(m[0], m[1]) for m in members], stack=stack,
                           after_s=round(time.time() - t0, 1))
            break
        if time.time() - t0 > wall_cap:
            outcome = dict(outcome="inconclusive", reason="wall-clock cap reached while still consuming CPU")
            break
    kill_group(pgid)
    if not reaped:
        try:
            os.waitpid(pid, 0)
        except ChildProcessError:
            pass
    for p in (res_path, stack_path):
        try:
            p.unlink()
        except OSError:
            pass
    return outcome
