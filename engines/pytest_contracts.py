"""pytest plugin: run the repository's own test-suite with the icontract
invariants of engines/contracts.py switched on (C17, thorough tier).
usage: PYTHONPATH=/verif pytest -p engines.pytest_contracts ...; writes the
evaluation counters to $YAWVERIF_CONTRACT_COUNTS at session end."""
import json
import os


def pytest_sessionstart(session):
    from engines import contracts

    contracts.install()


def pytest_sessionfinish(session, exitstatus):
    from engines import contracts

    path = os.environ.get("YAWVERIF_CONTRACT_COUNTS")
    if path:
        with open(path, "w") as f:
            json.dump(contracts.drain(), f)
