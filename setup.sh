#!/bin/bash
# Run once after a fresh restore, offline. Installs icontract/deal into the git-ignored .deps
# (checks re-install them on demand too) and verifies the repository imports.
cd "$(dirname "$0")"
export PIP_NO_INDEX=1
/venv/bin/python - <<'PY'
import sys
sys.path.insert(0, ".")
from vlib import deps
deps.ensure(verbose=True)
import yaw, numpy
print("setup ok: yaw from", yaw.__file__)
PY
mkdir -p evidence
