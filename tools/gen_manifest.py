#!/usr/bin/env python3
"""Regenerate MANIFEST.json from the table below (keeps it schema-valid)."""
import json
from pathlib import Path

VERIF = Path(__file__).resolve().parent.parent

# id -> (level, technique, text, note, engine)
CHECKS = {
    "C12": (
        "exploration",
        "invariant monitor on every returned catalog (atan2 separations, nearest-centre oracle) + refusal test of the guard",
        "Catalogs created in all three patch modes (centres in any order, weighted, single-object patches, reopened, "
        "metadata recomputed) are checked per patch for record count, weight sum, containment and tightness of the radius, "
        "keys 0..N-1, reported centre i == given centre i and every record nearest to its reported centre; measurements on "
        "catalogs with different key sets (also of equal size) or centres shifted by f x radius must raise "
        "InconsistentPatchesError for f > 1 and not for f = 0.",
        "Objects within 1e-9 rad of a patch boundary are not generated.",
        "checks/c12_metadata.py",
    ),
    "C13": (
        "exploration",
        "metamorphic monitor: original pipeline run vs transformed run (rotation, row order, centre permutation, weight scale, split)",
        "Small complete pipelines (cross + auto measurement, sample(), covariance, n(z)) are run on the original inputs and on "
        "inputs transformed by random SO(3) rotations (incl. a centre onto the pole and the field across RA=0, with centres "
        "given or taken from an index-column catalog), row permutations, permutations of the centre list, weight factors "
        "1e-12..1e12 and two-way splits; amplitudes, jackknife samples (permuted with the labels), covariances and n(z) "
        "must agree to 1e-9 of the largest entry, raw counts must be additive cell-wise.",
        "Margin filter: cases with a pair within 1e-9 of a scale edge or a point within 1e-7 rad of a patch boundary are rejected (counted).",
        "checks/c13_invariance.py",
    ),
    "C14": (
        "exploration",
        "reference-model monitor (longdouble/atan2 oracle) over hostile coordinate classes",
        "Every primitive of yaw.coordinates is executed on seeded batches of hostile inputs (poles, RA wrap, "
        "separations 1e-15..pi-1e-15, exact antipodes, -0.0/subnormal/unnormalised vectors) and compared with an "
        "extended-precision atan2 reference under conditioning-aware bounds; held means no deviation on the "
        "~7e5 (quick) / ~7e7 (thorough) evaluations listed in the evidence.",
        "Trusts numpy longdouble (64-bit mantissa) and libm; bounds encode the conditioning of the chord/arcsin route "
        "(DESIGN §4 C14), not a blanket tolerance.",
        "oracles/sphere.py",
    ),
    "C01": (
        "exploration",
        "reference-model monitor at autocorrelate/crosscorrelate against a brute-force O(n*m) pair oracle with interval bounds",
        "Real measurements on generated catalogs (hostile geometry: compact clusters far apart, dense-compact vs sparse-wide "
        "samples, uneven patch extents, pole, RA wrap, antipodes; zmin down to 0.002 and z up to 5; empty bins/patches; all "
        "units; overlapping and many-edged scale sets; separation weighting) are compared cell by cell - every (scale, bin, "
        "patch i, patch j) of dd/dr/rd/rr and every sum_weights entry - with weight-product sums over all object pairs "
        "computed from the records read back from the cache; evidence lists cells compared, pairs in the oracle and how many "
        "cases had counted pairs in patch pairs farther apart than their radii (pruning relevant).",
        "n <= ~400 objects per catalog (quadratic oracle); catalogs share centres; pairs within 1e-10 of an interval edge may "
        "go either way; with separation weighting only proportionality (one constant per kind and bin, equal across kinds).",
        "oracles/pairs.py",
    ),
    "C02": (
        "exploration",
        "reference-model monitor with unambiguous records (unique ids) + differential over chunk/buffer/worker/delivery settings",
        "Inputs with a unique id per row from DataFrame, HDF5, big-endian FITS, Parquet (row groups smaller/equal/larger than "
        "the chunk) and BoxRandoms are turned into catalogs by the real constructors; every stored record is matched to its "
        "input row (bijection, bit-identical weight/redshift, coordinates within 2 ulp of deg2rad(input), expected patch by "
        "brute-force nearest centre or index column), the catalog is reopened and compared bitwise, and the same input is "
        "re-created under other chunk sizes, buffer sizes (write_patches), progress, and 2..8 real worker processes with "
        "seeded and adversarial (slow-all-but-last-chunk) delays in front of each worker's queue put; per-patch multisets "
        "must be identical. Evidence: records matched, variant runs, parallel runs, delivery orders observed.",
        "Delivery orders of the real pool are sampled, not enumerated; objects within 1e-9 rad of a patch boundary may go either way.",
        "checks/c02_creation.py, vlib/sources.py, engines/procwatch.py",
    ),
    "C03": (
        "exploration",
        "reference-model monitor: leave-one-out by actual deletion (arrays) and by re-running the measurement without patch k",
        "Every jackknife row of counts, normalisation, normalised ratio, CorrFunc.sample(), RedshiftData and HistData is "
        "compared with the statistic recomputed after deleting patch k (numerator/denominator separately, ratios where well "
        "conditioned); covariance against the textbook double loop, symmetry, eigenvalues, error; end-to-end runs rebuild the "
        "catalogs without patch k and re-measure with the real code.",
        "Ratios judged only where the leave-one-out denominator exceeds 1e-9 of the full value; end-to-end geometry is pruning-safe.",
        "oracles/jack.py",
    ),
    "C04": (
        "exploration",
        "reference-model monitor: documented formulae written out on the raw arrays with explicit loops",
        "CorrFunc.sample() for all 7 member subsets (auto and cross), RedshiftData.from_corrfuncs/from_corrdata for value and "
        "every sample, and .normalised() of HistData/RedshiftData are compared with the formulae of the statement evaluated "
        "directly on counts and weight sums, on generated containers and on real measurements.",
        "Either Davis-Peebles form accepted when DR and RD exist without RR; RR without DR may raise; infinite terms (counts "
        "over a zero weight product) are not judged.",
        "oracles/jack.py",
    ),
    "C05": (
        "exploration",
        "differential over schedules: FakePool double (enumerated/structured/seeded completion orders) + real Pool with seeded delays",
        "Every parallel entry point (Catalog(dir) with metadata computation, build_trees, auto-/crosscorrelate, "
        "HistData.from_catalog, and a measurement after another binning was used in the same process) is run under all 24 "
        "completion orders of 4 per-patch tasks (exhaustive for that stratum), structured and random orders for pair "
        "counting, worker counts 1..12 and 64 with the in-process FakePool, and with real pools of 2/3/4/8 workers under "
        "seeded per-task delays; canonical serialisations of the public results are compared bitwise with the sequential run.",
        "FakePool is a faithful double of imap_unordered's contract; trees are compared through their content because scipy's "
        "pickle contains uninitialised struct padding.",
        "engines/fakepool.py",
    ),
    "C06": (
        "exploration",
        "event-log checkers + differential vs a single-process reference on a simulated MPI world with a seeded deterministic scheduler",
        "The library's real MPI branches (selected by putting a simulated mpi4py on sys.path before importing it) run on 2, 3, "
        "4, 5 and 8 rank-threads; every communication call is a scheduling point where a seeded scheduler picks the next rank "
        "and, for wildcard receives, which sender's message is matched (per-sender FIFO, free across senders), with eager or "
        "rendezvous completion of standard sends and adversarial policies (sentinel-first, newest-sender, starve a rank). Per "
        "run the checkers decide: logical deadlock, ranks raising, executed == submitted tasks (multisets), records read == "
        "delivered to the writer == stored, messages left unreceived, broadcast results equal on all ranks, root result == "
        "reference from a process that never saw mpi4py; evidence counts worlds, messages, wildcard matches with a real "
        "choice and distinct decision sequences.",
        "A simulated runtime (protocol/ordering errors reachable; transport limits, multi-node placement not); code between two "
        "MPI calls is atomic w.r.t. other ranks; a refusal raised on all ranks before any communication is counted separately.",
        "engines/fakempi/mpi4py/MPI.py",
    ),
    "C07": (
        "exploration",
        "differential over histories: final measurement after a history vs the same measurement on fresh caches (bitwise)",
        "Histories of 0..6 operations (measure with a configuration from a pool built to collide, build_trees with/without "
        "force, reopen, role swap, histogram; worker counts mixed in a third of the sampled histories) precede a final cross- "
        "and autocorrelation whose count and weight arrays are compared bitwise with the run on freshly created caches; all "
        "histories of <= 2 measurements over 6 configurations are enumerated in the thorough tier.",
        "Redshifts sit exactly on every edge of every pool configuration so that a wrongly reused tree changes counts.",
        "checks/c07_history.py",
    ),
    "C08": (
        "fault_enumeration",
        "crash injection: strace SIGKILL on entry to every file-system call of each workload + forked recovery probes",
        "Each cache-writing workload (catalog creation fresh / with overwrite / through buffered writers, metadata "
        "computation, tree builds and rebuilds with other edges, closed side, bin count, forced, unbinned, a measurement "
        "over cached trees, CorrFunc/CorrData/HistData/Configuration files fresh and over older files) is traced once and then "
        "replayed once per operation touching the state directory and killed exactly on entry to it (strace -P <paths> -e "
        "inject=<call>:signal=SIGKILL:when=<j>, self-checked against the reference trace); every distinct surviving state is "
        "probed in a forked process: Catalog(dir), measurements with the interrupted and the previously cached "
        "configuration, and the file readers must raise or behave exactly like the complete old or new state.",
        "Crash model: process death at system-call boundaries (page cache survives), single-process workloads; quick tier "
        "enumerates all points of 8 workloads, thorough all 18.",
        "engines/crashpoint.py",
    ),
    "C09": (
        "fault_enumeration",
        "fault injection + outcome classifier under a process-group quiescence watchdog; directory tree hashes; reopen probe",
        "The enumerated fault matrix (non-finite values, bad patch indices, injected worker/writer exceptions at first/middle/"
        "last/only chunk; missing/unequal columns; no patch method; a centre without objects; every prior state of the cache "
        "path) is executed with the real constructors for 1, 2 (and 4) workers, each in a forked child whose process group is "
        "watched via /proc: an execution is classified returned(records)/raised/quiescent, the directory is hashed before and "
        "after, and Catalog(dir) is probed afterwards; sequential and parallel outcomes are compared.",
        "Hang = all processes of the group asleep and no CPU time consumed for 3 s (not a deadline); injected exceptions are "
        "planted by wrapping module attributes before the pool is forked; non-integer patch indices are not judged.",
        "engines/procwatch.py",
    ),
    "C10": (
        "exploration",
        "reference-model monitor (explicit interval rule) with three consumers compared on edge-valued lattices",
        "Catalogs whose redshifts contain every bin edge exactly, +-1 ulp, out-of-range values and duplicates are binned by the "
        "three real consumers (BinnedTrees, the sum_weights of a real crosscorrelate, HistData.from_catalog per patch) and "
        "compared per bin and patch with lo<z<=hi / lo<=z<hi and with each other, including empty bins and patches without "
        "any object inside the binning.",
        "Patch membership fixed by construction.",
        "oracles/binrule.py",
    ),
    "C11": (
        "exploration",
        "round-trip monitors with member-wise comparison and an independent decimal oracle for the text format",
        "Generated CorrFunc/NormalisedCounts/PatchedCounts/PatchedSumWeights/Binning (HDF5, all member subsets, zero/sparse "
        "counts), Configurations (YAML, every method/closed/unit/scales/cosmology name, custom edges), CorrData/RedshiftData/"
        "HistData (text files, 1..8 bins, NaN/inf, 1e-9..1e12), Metadata (YAML) and catalogs (cache directory) are written by "
        "the real code, read back by the real code and compared member by member and through downstream results; the evidence "
        "counts the round trips per product.",
        "The fixed-width oracle (round to 10 decimals, cut to 10 characters) is computed with decimal, independent of the "
        "repository's formatter; custom cosmologies are not serialisable by documentation and are excluded.",
        "checks/c11_roundtrip.py",
    ),
    "C15": (
        "exploration",
        "reference-model monitor (astropy-only oracle) + construction-path equivalence modify() vs create(merged)",
        "Seeded parameter dictionaries over the full product of methods, closed sides, units, scale lists, cosmologies (named "
        "and CustomCosmology), generated/custom edges are built by Configuration.create and judged against an oracle that uses "
        "astropy only (edge count, exact zmin/zmax, uniform spacing in the method's variable, angle = r/D(z)); every "
        "configuration is modified four times and compared with create() on the merged parameters (description, to_dict, "
        "edges bitwise, ==), immutability and the invalid-parameter table are checked.",
        "Merging rule for the two exclusive binning parameter groups as in to_dict(); uniform spacing judged to 1e-6 of a bin "
        "plus the 1e-7 accuracy of astropy's numerical inversion.",
        "checks/c15_config.py",
    ),
    "C16": (
        "exploration",
        "invariant + reproducibility monitor on unique attribute rows; chi^2/KS uniformity statistics at p < 1e-9",
        "Catalog.from_random / BoxRandoms over hostile windows (pole-to-pole, caps touching +-90 deg, thin strips, full sky), "
        "sizes around chunk multiples, both patch modes, workers 1 and 4: record count, containment in the window, every "
        "(weight, redshift) pair is a row of the supplied table, second creation from the same generator after arbitrary "
        "use == first == fresh generator with the same seed == parallel run, other seed differs; equal-area chi^2, KS on "
        "alpha and sin(delta), rank correlation.",
        "Statistical verdicts have a false-alarm probability of ~1e-9 per test and are deterministic per seed; HealPixRandoms unreachable.",
        "checks/c16_randoms.py",
    ),
    "C17": (
        "exploration",
        "algebraic-law monitor over generated containers + icontract structural invariants on the real classes",
        "~350 law instances per generated container family (add/sum/radd, scalar multiplication incl. sampled estimates "
        "under a conditioned tolerance, ==/!=, bins/patches by every index, slice, negative/stepped slice and iteration, "
        "commutation with sample_patch_sum/sample/covariance, rejection of incompatible operands and shapes) for every "
        "container class, with icontract invariants (shapes, strictly increasing edges, member compatibility) evaluated on "
        "every public call; evidence lists law instances and invariant evaluations.",
        "CorrFunc + CorrFunc with different optional members and empty slices are not judged (statement does not define them).",
        "checks/c17_algebra.py, engines/contracts.py",
    ),
    "C18": (
        "exploration",
        "history monitor: recording proxies log every request of the readers; offline checker of the request log",
        "A DataFrame-like proxy, proxies around the h5py / FITS / Parquet handles of the real readers and a logging random "
        "generator record every slice, row group or draw requested during Catalog.from_*; per column and pass the log must be "
        "the consecutive partition [0,c),[c,2c),... with every row once, exactly one pass (+1 when centres are generated), no "
        "whole-input access when n > c and no chunk handed on longer than c; stratified over source x patch mode x lengths "
        "around chunk multiples, workers 1 and 4.",
        "FITS: slices asked of the column object (not astropy's mmap); Parquet: unit of request is the row group.",
        "vlib/sources.py",
    ),
}

NOT_YET = {}

ALL = [f"C{i:02d}" for i in range(1, 19)]


def main():
    checks = []
    for pid in ALL:
        if pid not in CHECKS:
            continue
        level, technique, text, note, engine = CHECKS[pid]
        checks.append(dict(
            property_id=pid,
            quick_cmd=f"./check {pid} --tier quick",
            thorough_cmd=f"./check {pid} --tier thorough",
            evidence_file=f"evidence/{pid}.json",
            replay_cmd_template=f"./check {pid} --replay {{path}}",
            engine=engine,
            level_claimed=dict(category=level, text=text, design_ref=f"DESIGN.md §4 {pid}"),
            level_note=note,
            technique=technique,
        ))
    na = [dict(property_id=pid, reason=NOT_YET.get(pid, "check not built yet in this session; planned per DESIGN.md §4"))
          for pid in ALL if pid not in CHECKS]
    manifest = dict(
        version=1,
        setup_cmd="./setup.sh",
        hooks=dict(
            guard="YAW_VERIF",
            enable="no source hooks: monitors wrap module attributes of the imported /repo/src/yaw from the harness "
                   "(fork start method carries them into pool/writer children); YAW_VERIF is reserved and unused",
            baseline_off_cmd="cd /repo && /venv/bin/python -m pytest -ra -q -p no:cacheprovider --timeout=900 "
                             "--continue-on-collection-errors",
            source_commits=[],
            add_only=True,
        ),
        engines=[
            dict(name="vlib", path="vlib/core.py", serves_properties=ALL,
                 kind_free_text="case runner: sharded execution, verdicts, known-finding classifier, evidence/replay writer"),
            dict(name="crashpoint", path="engines/crashpoint.py", serves_properties=["C08"],
                 kind_free_text="strace-based crash-point injector: trace, then SIGKILL on entry to the k-th relevant file-system call"),
            dict(name="fakempi", path="engines/fakempi/mpi4py/MPI.py", serves_properties=["C06"],
                 kind_free_text="thread-per-rank mpi4py double with a deterministic seeded scheduler, logical deadlock detection and an event log"),
            dict(name="fakepool", path="engines/fakepool.py", serves_properties=["C05"],
                 kind_free_text="in-process double of multiprocessing.Pool yielding imap_unordered results in a chosen permutation"),
            dict(name="sources", path="vlib/sources.py", serves_properties=["C02", "C18", "C09"],
                 kind_free_text="input file writers (FITS/HDF5/Parquet) and recording proxies for reader handles"),
            dict(name="procwatch", path="engines/procwatch.py", serves_properties=["C09", "C08"],
                 kind_free_text="forked workload runner with /proc-based quiescence (hang) detection and process-group kill"),
            dict(name="contracts", path="engines/contracts.py", serves_properties=["C17", "C03", "C04", "C11", "C12"],
                 kind_free_text="icontract structural invariants attached to the repository's classes from the harness"),
            dict(name="mutants", path="tools/mutants.py", serves_properties=ALL,
                 kind_free_text="monitor validation: applies deliberate property-breaking edits to /repo, runs the quick checks, restores"),
            dict(name="oracles", path="oracles/", serves_properties=ALL,
                 kind_free_text="independent reference computations (brute force, longdouble, explicit loops)"),
        ],
        checks=checks,
        notes="Runtime monitoring only. Exit 0 held / 1 VIOLATION / 2 inconclusive. Known findings: known_findings.txt.",
        not_applicable=na,
    )
    (VERIF / "MANIFEST.json").write_text(json.dumps(manifest, indent=1) + "\n")
    print(f"wrote MANIFEST.json: {len(checks)} checks, {len(na)} not claimed")


if __name__ == "__main__":
    main()
