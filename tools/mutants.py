#!/usr/bin/env python3
"""Monitor validation (DESIGN §3.6): apply deliberate property-breaking edits to
/repo's working tree one at a time, run the quick tier of the checks that must
catch them, restore the tree (git checkout) and report caught / missed.

usage: tools/mutants.py [--only C01,C14] [--name substr] [--tests]
The tree is always restored, also on Ctrl-C.  Never commits anything.
"""
from __future__ import annotations

import argparse
import subprocess
import sys
import time
from pathlib import Path

REPO = Path("/repo")
SRC = REPO / "src" / "yaw"
VERIF = Path(__file__).resolve().parent.parent

# (name, [properties that must catch it], file, old, new)
MUTANTS = [
    # ---- C01
    ("c01-link-no-scale-angle", ["C01"], "correlation/measurements.py",
     "linked = distances < (radii + patch_radius + max_scale_angle)", "linked = distances < (radii + patch_radius)"),
    ("c01-link-one-radius", ["C01"], "correlation/measurements.py",
     "linked = distances < (radii + patch_radius + max_scale_angle)", "linked = distances < (patch_radius + max_scale_angle)"),
    ("c01-auto-j-lt-i", ["C01"], "correlation/measurements.py",
     "if not auto or j > i:", "if not auto or j < i:"),
    ("c01-diag-not-halved", ["C01"], "correlation/measurements.py",
     "counts = counts * 0.5  # autocorrelation", "counts = counts * 1.0  # autocorrelation"),
    ("c01-dispatch-swapped", ["C01"], "catalog/trees.py",
     "    if cumulative:\n        return np.diff(counts)\n    return counts[1:]",
     "    if not cumulative:\n        return np.diff(counts)\n    return counts[1:]"),
    ("c01-idx-max-off-by-one", ["C01"], "catalog/trees.py",
     "final_counts[i] = counts[idx_min:idx_max].sum()", "final_counts[i] = counts[idx_min : idx_max + 1].sum()"),
    ("c01-digitize-right-inverted", ["C01", "C10"], "catalog/trees.py",
     "right=(binning.closed == Closed.right)", "right=(binning.closed != Closed.right)"),
    ("c01-angle-at-left-edge", ["C01"], "correlation/measurements.py",
     "zmids = config.binning.binning.mids", "zmids = config.binning.binning.left"),
    ("c01-weights-dropped-second-tree", ["C01"], "catalog/trees.py",
     "weights=(self.weights, other.weights),", "weights=(self.weights, None),"),
    ("c01-empty-bin-lookup-shifted", ["C01", "C10"], "catalog/trees.py",
     "trees = tuple(trees.get(i + 1, empty_tree) for i in range(len(binning)))",
     "trees = tuple(trees.get(i, empty_tree) for i in range(len(binning)))"),
    ("c01-sum-weights-wrong-id", ["C01"], "correlation/measurements.py",
     "sum_weights2[:, id2] = pair_counts.sum_weights2", "sum_weights2[:, id1] = pair_counts.sum_weights2"),
    ("c01-rweight-mid-linear", ["C01"], "catalog/trees.py",
     "log_mids = (log_edges[:-1] + log_edges[1:]) / 2.0\n    return 10.0**log_mids",
     "return (edges[:-1] + edges[1:]) / 2.0"),
    ("c01-max-angle-zmin", ["C01"], "correlation/measurements.py",
     "for zmid in config.binning.binning.mids", "for zmid in [max(config.binning.zmin, 0.05)]"),
    # ---- C02
    ("c02-df-chunk-start-off-by-one", ["C02", "C18"], "catalog/readers.py",
     "        end = self._num_samples  # already incremented by chunksize in __next__\n        start = end - self.chunksize\n        chunk = self._data[start:end]",
     "        end = self._num_samples  # already incremented by chunksize in __next__\n        start = end - self.chunksize + 1\n        chunk = self._data[start:end]"),
    ("c02-last-partial-chunk-dropped", ["C02", "C18"], "catalog/readers.py",
     "        if self._num_samples >= self.num_records:\n            raise StopIteration()", "        if self._num_samples + self.chunksize > self.num_records + (self.chunksize if self._num_samples == 0 else 0):\n            raise StopIteration()"),
    ("c02-parquet-remainder-lost", ["C02", "C18"], "catalog/readers.py",
     "        if len(remainder) > 0:\n            self._group_cache.appendleft(remainder)", "        if len(remainder) > self.chunksize:\n            self._group_cache.appendleft(remainder)"),
    ("c02-flush-skipped-on-close", ["C02"], "catalog/patch.py",
     "        self.flush()\n        self._file.close()", "        if self.buffersize <= 1:\n            self.flush()\n        self._file.close()"),
    ("c02-groupby-loses-first", ["C02"], "utils/misc.py",
     "    yield from zip(uniques, np.split(values_sorted, idx_split[1:]))", "    yield from zip(uniques[1:], np.split(values_sorted, idx_split[1:])[1:])"),
    ("c02-deg2rad-twice-dec", ["C02"], "datachunk.py",
     '            array["dec"] = np.deg2rad(array["dec"])', '            array["dec"] = np.deg2rad(np.deg2rad(array["dec"]))'),
    ("c02-deg2rad-radian-input", ["C02"], "datachunk.py",
     "        if degrees:\n            array", "        if degrees or True:\n            array"),
    ("c02-patchids-used-with-centres", ["C02"], "catalog/catalog.py",
     "    if patch_centers is not None:\n        patch_ids = assign_patch_centers(patch_centers, chunk)\n        if has_patch_ids:",
     "    if patch_centers is not None and not has_patch_ids:\n        patch_ids = assign_patch_centers(patch_centers, chunk)\n        if has_patch_ids:"),
    ("c02-buffer-flush-drops-shard", ["C02"], "catalog/patch.py",
     "        self._shards.append(data)\n\n        if self.cachesize >= self.buffersize:\n            self.flush()",
     "        if self.cachesize >= self.buffersize > 0:\n            self.flush()\n            self._shards = []\n        self._shards.append(data)\n        if self.buffersize > 1 and self.cachesize > self.buffersize:\n            self._shards.pop()"),
    ("c02-fits-no-byteswap", ["C02"], "catalog/readers.py",
     "            return array.view(array.dtype.newbyteorder()).byteswap()", "            return array.view(array.dtype.newbyteorder())"),
    ("c02-f4-cast-via-f4", ["C02"], "datachunk.py",
     "            array[name] = asarray_func(value)", "            array[name] = asarray_func(value).astype('f4') if name == 'redshifts' else asarray_func(value)"),
    ("c02-sentinel-before-last-map", ["C02"], "catalog/catalog.py",
     "                for chunk in chunk_iter:\n                    pool.map(chunk_processing_task, np.array_split(chunk, max_workers))\n\n                patch_queue.put(EndOfQueue)",
     "                pending = None\n                for chunk in chunk_iter:\n                    pending = pool.map_async(chunk_processing_task, np.array_split(chunk, max_workers))\n\n                patch_queue.put(EndOfQueue)\n                if pending is not None:\n                    pending.get()"),
    # ---- C03
    ("c03-diag-minus", ["C03"], "correlation/paircounts.py",
     "samples = sum_tiled - row_sum - col_sum + diag", "samples = sum_tiled - row_sum - col_sum - diag"),
    ("c03-diag-dropped", ["C03"], "correlation/paircounts.py",
     "samples = sum_tiled - row_sum - col_sum + diag", "samples = sum_tiled - row_sum - col_sum"),
    ("c03-row-twice", ["C03"], "correlation/paircounts.py",
     'col_sum = np.einsum("bij->ib", bin_patch_array)', 'col_sum = np.einsum("bij->jb", bin_patch_array)'),
    ("c03-samples-reversed", ["C03"], "correlation/paircounts.py",
     "        return SampledData(self.binning, sum_patches, samples)", "        return SampledData(self.binning, sum_patches, samples[::-1])"),
    ("c03-cov-prefactor", ["C03"], "correlation/corrdata.py",
     "covmat = np.cov(concat_samples, rowvar=rowvar, ddof=0) * (num_samples - 1)", "covmat = np.cov(concat_samples, rowvar=rowvar, ddof=0) * num_samples"),
    ("c03-cov-ddof", ["C03"], "correlation/corrdata.py",
     "covmat = np.cov(concat_samples, rowvar=rowvar, ddof=0) * (num_samples - 1)", "covmat = np.cov(concat_samples, rowvar=rowvar, ddof=1) * (num_samples - 1)"),
    ("c03-norm-from-full-total", ["C03"], "correlation/paircounts.py",
     "        samples = counts.samples / sum_weights.samples", "        samples = counts.samples / sum_weights.data"),
    ("c03-hist-jackknife-first-n", ["C03"], "redshifts.py",
     "    idx_diagonal = idx_range * (num_patches + 1)", "    idx_diagonal = idx_range"),
    ("c03-auto-diag-not-halved-in-norm", ["C03", "C04"], "correlation/paircounts.py",
     '            np.einsum("bii->bi", array)[:] *= 0.5  # view of original array', '            pass'),
    # ---- C04
    ("c04-ls-sign", ["C04"], "correlation/corrfunc.py",
     "    return ((dd - dr) + (rr - rd)) / rr", "    return ((dd - dr) - (rr - rd)) / rr"),
    ("c04-ls-rd-ignored", ["C04"], "correlation/corrfunc.py",
     "    if rd is None:\n        rd = dr\n    return", "    rd = dr\n    return"),
    ("c04-dp-no-minus-one", ["C04"], "correlation/corrfunc.py",
     "    return (dd - mixed) / mixed", "    return dd / mixed"),
    ("c04-dz-not-squared", ["C04"], "redshifts.py",
     "        dz2_data = cross_data.binning.dz**2", "        dz2_data = cross_data.binning.dz"),
    ("c04-autocorr-multiplied", ["C04"], "redshifts.py",
     "        nz_data = w_sp_data / np.sqrt(dz2_data * w_ss_data * w_pp_data)", "        nz_data = w_sp_data * np.sqrt(w_ss_data * w_pp_data / dz2_data)"),
    ("c04-samples-full-autocorr", ["C04", "C03"], "redshifts.py",
     "            w_ss_samp = ref_data.samples", "            w_ss_samp = ref_data.data"),
    ("c04-norm-sum-data", ["C04"], "redshifts.py",
     "            norm = np.nansum(self.binning.dz * self.data)", "            norm = np.nansum(self.data)"),
    ("c04-hist-norm-no-width", ["C04"], "redshifts.py",
     "        data = self.data * width_correction\n        samples = self.samples * width_correction", "        data = self.data * 1.0\n        samples = self.samples * 1.0"),
    ("c04-estimator-picks-dp-with-rr", ["C04"], "correlation/corrfunc.py",
     "estimator = landy_szalay if self.rr is not None else davis_peebles", "estimator = landy_szalay if (self.rr is not None and self.rd is not None) else davis_peebles"),
    # ---- C10
    ("c10-keep-range-shifted", ["C10", "C01"], "catalog/trees.py",
     "            if 0 < i <= len(binning):", "            if 0 <= i < len(binning):"),
    ("c10-hist-right-inverted", ["C10"], "redshifts.py",
     'bin_idx = np.digitize(redshifts, binning.edges, right=(binning.closed == "right"))', 'bin_idx = np.digitize(redshifts, binning.edges, right=(binning.closed == "left"))'),
    ("c10-hist-half-open-default", ["C10"], "redshifts.py",
     'bin_idx = np.digitize(redshifts, binning.edges, right=(binning.closed == "right"))', 'bin_idx = np.digitize(redshifts, binning.edges)'),
    ("c10-hist-outer-kept", ["C10"], "redshifts.py",
     "    return patch_id, counts[1:-1].astype(np.float64)", "    counts[1] += counts[0]\n    return patch_id, counts[1:-1].astype(np.float64)"),
    ("c10-empty-tree-removed", ["C10", "C01"], "catalog/trees.py",
     "        if self.tree is None or other.tree is None:\n            return np.zeros(len(ang_limits))\n", ""),
    ("c10-binning-file-closed-flipped", ["C07"], "catalog/trees.py",
     "                closed_left = binning.closed == Closed.left", "                closed_left = binning.closed == Closed.left or len(binning) == 1"),
    ("c07-assert-control-flow", ["C07"], "catalog/trees.py",
     '            if force:\n                raise AssertionError("rebuild requested")\n            new = cls(patch)  # trees exists, load the associated binning\n            if not new.binning_equal(binning):\n                raise AssertionError("cached trees use a different binning")',
     '            assert not force\n            new = cls(patch)  # trees exists, load the associated binning\n            assert new.binning_equal(binning)'),
    # ---- C06
    ("c06-sentinel-per-task", ["C06"], "utils/parallel.py",
     "        except StopIteration:\n            comm.send(EndOfQueue, dest=rank, tag=1)\n            active_workers -= 1",
     "        except StopIteration:\n            comm.send(EndOfQueue, dest=rank, tag=1)\n        active_workers -= 1"),
    ("c06-result-without-rank", ["C06"], "utils/parallel.py",
     "        comm.send((rank, result), dest=0, tag=2)", "        comm.send((0 if rank % 2 else rank, result), dest=0, tag=2)"),
    ("c06-missing-final-barrier", ["C06"], "catalog/catalog.py",
     "            parallel.COMM.send(EndOfQueue, dest=worker_config.writer_rank, tag=1)\n        parallel.COMM.Barrier()",
     "            parallel.COMM.send(EndOfQueue, dest=worker_config.writer_rank, tag=1)"),
    ("c06-eager-send-to-writer", ["C06"], "catalog/catalog.py",
     "            parallel.COMM.ssend(patches, dest=worker_config.writer_rank, tag=1)", "            parallel.COMM.send(patches, dest=worker_config.writer_rank, tag=1)"),
    ("c06-source-hardcoded-after-split", ["C06"], "catalog/catalog.py",
     "            return comm.recv(source=0, tag=2)", "            return comm.recv(source=1, tag=2)"),
    ("c06-bcast-root-only", ["C06"], "catalog/catalog.py",
     "    return parallel.COMM.bcast(patches, root=0)", "    return patches if parallel.on_root() else parallel.COMM.bcast(patches, root=0) if False else patches"),
    ("c06-min-one-worker-dropped", ["C06"], "utils/parallel.py",
     "        max_workers = max(max_workers, 2)\n", ""),
    ("c06-hist-no-bcast", ["C06"], "redshifts.py",
     "        parallel.COMM.Bcast(counts, root=0)\n", ""),
    ("c06-corrfunc-read-no-bcast", ["C06"], "correlation/corrfunc.py",
     "        return bcast_instance(new)", "        return new"),
    ("c06-reader-all-ranks-read", ["C06"], "catalog/readers.py",
     "        if parallel.on_worker():\n            return None\n        return self._get_next_chunk()", "        return self._get_next_chunk()"),
    ("c06-scatter-skip-empty", ["C06"], "catalog/catalog.py",
     "                if rank != reader_rank:\n                    comm.send(split, dest=rank, tag=2)", "                if rank != reader_rank and len(split) > 0:\n                    comm.send(split, dest=rank, tag=2)"),
    # ---- C08
    ("c08-marker-not-removed-first", ["C08"], "catalog/trees.py",
     "            new.binning_file.unlink(missing_ok=True)\n", ""),
    # (since d25ad32 the id list is renamed into place and can no longer be found empty after a crash: the
    #  acceptance of an empty list alone is unobservable; that mutant was replaced by the revert of the atomic write)
    ("c08-id-list-not-atomic", ["C08"], "catalog/catalog.py",
     "        np.sort(patch_ids).tofile(temp_path)\n        temp_path.replace(path)", "        np.sort(patch_ids).tofile(path)"),
    ("c08-results-not-removed-first", ["C08"], "correlation/corrdata.py",
     "                path_prefix.with_suffix(suffix).unlink(missing_ok=True)", "                pass"),
    ("c08-overwrite-keeps-id-list", ["C08"], "catalog/catalog.py",
     "            rmtree(self.cache_directory)\n\n        self.buffersize = buffersize\n        self.cache_directory.mkdir()",
     "            [rmtree(p) for p in self.cache_directory.iterdir() if p.is_dir()]\n\n        self.buffersize = buffersize\n        self.cache_directory.mkdir(exist_ok=True)"),
    # ---- C09
    ("c09-finite-check-removed", ["C09"], "datachunk.py",
     "asarray_func = np.asarray_chkfinite if chkfinite else np.asarray", "asarray_func = np.asarray"),
    ("c09-range-check-off-by-one", ["C09"], "datachunk.py",
     "if patch_ids.min() < min_id or patch_ids.max() > max_id:", "if patch_ids.min() < min_id - 1 or patch_ids.max() > max_id + 1:"),
    ("c09-finalize-on-error", ["C09"], "catalog/catalog.py",
     "        if exc_type is None:  # otherwise leave the cache incomplete and invalid\n            self.finalize()", "        self.finalize()"),
    ("c09-writer-errors-swallowed", ["C09"], "catalog/catalog.py",
     "            if exc_type is None and self.process.exitcode != 0:\n                raise RuntimeError(\"writing patch data failed, see writer error above\")\n", ""),
    ("c09-no-terminate-on-error", ["C09"], "catalog/catalog.py",
     "                self.process.terminate()\n", "                pass\n"),
    ("c09-overwrite-guard-dropped", ["C09"], "catalog/catalog.py",
     "            elif not (self.cache_directory / PATCH_INFO_FILE).exists():", "            elif False:"),
    ("c09-exists-guard-dropped", ["C09"], "catalog/catalog.py",
     "            if not overwrite:\n                raise FileExistsError(f\"cache directory exists: {cache_directory}\")\n            elif", "            if"),
    ("c09-empty-centre-accepted", ["C09", "C12"], "catalog/catalog.py",
     "        if patch_ids != list(range(len(patch_centers))):", "        if False:"),
    ("c09-length-check-removed", ["C09"], "catalog/readers.py",
     "            common_len_assert([self._file[col] for col in self._columns.values()])", "            pass"),
    # ---- C12
    ("c12-radius-to-mean", ["C12"], "catalog/patch.py",
     "        new.radius = coords.distance(new.center).max()", "        new.radius = coords.distance(coords.mean(weights)).max()"),
    ("c12-sum-weights-ignores-weights", ["C12"], "catalog/patch.py",
     "            new.sum_weights = float(np.sum(weights))", "            new.sum_weights = float(new.num_records)"),
    ("c12-centres-reversed", ["C12"], "catalog/catalog.py",
     "        patch_arg_iter = zip(patch_paths, patch_centers)", "        patch_arg_iter = zip(patch_paths, patch_centers[::-1])"),
    ("c12-guard-lengths-only", ["C12"], "correlation/measurements.py",
     "        if any(set(cat.keys()) != catalog.keys() for cat in catalogs):", "        if any(len(cat.keys()) != len(catalog.keys()) for cat in catalogs):"),
    ("c12-guard-removed", ["C12"], "correlation/measurements.py",
     "        check_patch_conistency(ref_cat, *other_cats)\n", ""),
    ("c12-guard-rtol-huge", ["C12"], "correlation/measurements.py",
     "def check_patch_conistency(catalog: Catalog, *catalogs: Catalog, rtol: float = 0.5):", "def check_patch_conistency(catalog: Catalog, *catalogs: Catalog, rtol: float = 5.0):"),
    ("c12-mean-unweighted", ["C12"], "coordinates.py",
     "        mean_xyz = np.average(self.to_3d(), weights=weights, axis=0)", "        mean_xyz = np.average(self.to_3d(), axis=0)"),
    # ---- C14
    ("c14-arcsin-arccos", ["C14"], "coordinates.py",
     "angles = 2.0 * np.arcsin(dists / 2.0)", "angles = 2.0 * np.arccos(1.0 - dists / 2.0)"),
    ("c14-no-mod-2pi", ["C14"], "coordinates.py",
     "ra = np.arccos(x_normed) * sgn(y) % (2.0 * np.pi)", "ra = np.arccos(x_normed) * sgn(y)"),
    ("c14-sgn-zero", ["C14"], "coordinates.py",
     "return np.where(val == 0, 1.0, np.sign(val))", "return np.sign(val)"),
    ("c14-chord-from-radec", ["C14"], "coordinates.py",
     "        self_xyz = self.to_3d()\n        other_xyz = other.to_3d()\n        coord_diff_sq = (self_xyz - other_xyz) ** 2",
     "        coord_diff_sq = (self.data - other.data) ** 2"),
    ("c14-no-clamp", ["C14"], "coordinates.py",
     "        dists = np.minimum(dists, 2.0)\n", ""),
    # ---- C15
    ("c15-modify-drops-rweight", ["C15"], "config/combined.py",
     "rmin=rmin, rmax=rmax, unit=unit, rweight=rweight, resolution=resolution\n        )\n\n        cosmology = (",
     "rmin=rmin, rmax=rmax, unit=unit, resolution=resolution\n        )\n\n        cosmology = ("),
    ("c15-cosmology-not-forwarded", ["C15"], "config/combined.py",
     "            closed=closed,\n            cosmology=cosmology,\n        )\n        max_workers",
     "            closed=closed,\n        )\n        max_workers"),
    ("c15-eq-ignores-unit", ["C15"], "config/scales.py",
     "            and self.unit == other.unit\n", ""),
    ("c15-kpc-factor", ["C15", "C01"], "cosmology.py",
     "        if self.unit == Unit.kpc:\n            scales = scales / 1000.0", "        if self.unit == Unit.kpc:\n            scales = scales / 100.0"),
    ("c15-arcmin-arcsec-swapped", ["C15", "C01"], "cosmology.py",
     "        if self.unit == Unit.arcsec:\n            scales = scales / 3600.0\n        elif self.unit == Unit.arcmin:\n            scales = scales / 60.0",
     "        if self.unit == Unit.arcsec:\n            scales = scales / 60.0\n        elif self.unit == Unit.arcmin:\n            scales = scales / 3600.0"),
    ("c15-validation-relaxed", ["C15"], "cosmology.py",
     "if np.any((scale_max - scale_min) <= 0.0):", "if np.any((scale_max - scale_min) < 0.0):"),
    ("c15-comoving-uses-default-cosmo", ["C15"], "cosmology.py",
     "        self.cosmology = cosmology or get_default_cosmology()", "        self.cosmology = get_default_cosmology()"),
    ("c15-logspace-base10", ["C15"], "cosmology.py",
     "log_min, log_max = np.log([1.0 + min, 1.0 + max])\n        edges = np.logspace(log_min, log_max, num_bins + 1, base=np.e) - 1.0",
     "log_min, log_max = np.log([min + 1e-3, max + 1e-3])\n        edges = np.logspace(log_min, log_max, num_bins + 1, base=np.e) - 1e-3"),
    # ---- C17
    ("c17-patch-slice-one-axis", ["C17"], "correlation/paircounts.py",
     "self.counts[:, item][:, :, item]", "self.counts[:, item]"),
    ("c17-radd-not-self", ["C17"], "correlation/paircounts.py",
     "        if np.isscalar(other) and other == 0:\n            return self  # this convenient when applying sum()",
     "        if np.isscalar(other) and other == 1:\n            return self  # this convenient when applying sum()"),
    ("c17-eq-ignores-auto", ["C17"], "correlation/paircounts.py",
     "            and np.array_equal(self.counts, other.counts)\n            and self.auto == other.auto",
     "            and np.array_equal(self.counts, other.counts)"),
    ("c17-compat-skips-binning", ["C17"], "correlation/paircounts.py",
     "        binnings_compatible = BinwiseData.is_compatible(self, other, require=require)", "        binnings_compatible = True"),
    ("c17-bin-slice-sumweights-swapped", ["C17"], "correlation/paircounts.py",
     "binning, self.sum_weights1[item], self.sum_weights2[item], auto=self.auto",
     "binning, self.sum_weights2[item], self.sum_weights1[item], auto=self.auto"),
    ("c17-sub-adds-samples", ["C17"], "correlation/corrdata.py",
     "            self.samples - other.samples,", "            self.samples + other.samples,"),
    ("c17-add-member-sets-unchecked", ["C17"], "correlation/corrfunc.py",
     "        if set(self.to_dict()) != set(other.to_dict()):", "        if False:"),
    ("c17-mul-bool-accepted", ["C17"], "correlation/paircounts.py",
     "        if not np.isscalar(other) or isinstance(other, (bool, np.bool_)):\n            return NotImplemented\n\n        return type(self)(self.binning, self.counts * other",
     "        if not np.isscalar(other):\n            return NotImplemented\n\n        return type(self)(self.binning, self.counts * other"),
    # ---- C11
    ("c11-rd-skipped-on-write", ["C11"], "correlation/corrfunc.py",
     'names = ("data_data", "data_random", "random_data", "random_random")\n        for name, kind',
     'names = ("data_data", "data_random", "random_dat", "random_random")\n        for name, kind'),
    ("c11-sparse-transposed", ["C11"], "correlation/paircounts.py",
     "patch_pairs = np.column_stack([patch_ids1, patch_ids2])", "patch_pairs = np.column_stack([patch_ids2, patch_ids1])"),
    ("c11-closed-not-stored", ["C11"], "binning.py",
     '        closed = source["closed"][()].decode("utf-8")\n        return cls(edges, closed=closed)',
     '        return cls(edges)'),
    ("c11-float-fewer-digits", ["C11"], "utils/misc.py",
     'string = f"{value: .{width}f}"', 'string = f"{value: .{width - 4}f}"'),
    ("c11-yaml-closed-lost", ["C11"], "config/binning.py",
     '        the_dict["closed"] = str(self.closed)\n        return the_dict', '        the_dict["closed"] = "right"\n        return the_dict'),
    ("c11-meta-radius-float32", ["C11", "C12"], "catalog/patch.py",
     "            radius=self.radius.tolist()[0],  # 1-dim by default", "            radius=float(np.float32(self.radius.tolist()[0])),  # 1-dim by default"),
    ("c11-sum-weights-1-read-twice", ["C11"], "correlation/paircounts.py",
     '            new.sum_weights2 = source["sum_weights2"][:]', '            new.sum_weights2 = source["sum_weights1"][:]'),
]


def restore():
    subprocess.run(["git", "-C", str(REPO), "checkout", "--", "."], check=True)


def run_check(pid, env=None):
    import os

    t = time.time()
    e = dict(os.environ)
    e.update(env or {})
    p = subprocess.run([str(VERIF / "check"), pid, "--tier", "quick"], capture_output=True, text=True, cwd=VERIF, env=e)
    lines = [l for l in p.stdout.splitlines() if l.startswith("VIOLATION") or "INCONCLUSIVE" in l or "violation mechanism" in l]
    return p.returncode, lines, time.time() - t


def run_isolated(mut):
    """One mutant in its own scratch worktree (checks pointed at it through YAWVERIF_SRC)."""
    import shutil

    name, props, rel, old, new = mut
    wt = Path(f"/tmp/mutiso-{name}-{int(time.time() * 1000) % 10**9}")
    subprocess.run(["git", "-C", str(REPO), "worktree", "add", "-q", "--detach", str(wt), "HEAD"], check=True)
    rows = []
    try:
        shutil.copy(REPO / "src/yaw/_version.py", wt / "src/yaw/_version.py")
        path = wt / "src" / "yaw" / rel
        src = path.read_text()
        if src.count(old) != 1:
            return [(name, "STALE", f"pattern found {src.count(old)}x", 0.0, "")]
        path.write_text(src.replace(old, new))
        env = dict(YAWVERIF_SRC=str(wt / "src"), YAWVERIF_OUT=str(wt / "_verif_out"))
        for pid in props:
            rc, lines, dt = run_check(pid, env)
            verdict = {0: "MISSED", 1: "caught", 2: "inconclusive"}.get(rc, f"rc={rc}")
            if rc == 1 and not any(l.startswith("VIOLATION") for l in lines):
                verdict = "check-error"
            mech = "; ".join(l.split("mechanism=")[1].split(" ")[0] for l in lines if "mechanism=" in l)[:160]
            rows.append((name, pid, verdict, dt, mech))
    finally:
        subprocess.run(["git", "-C", str(REPO), "worktree", "remove", "--force", str(wt)])
    return rows


def main():
    ap = argparse.ArgumentParser()
    ap.add_argument("--jobs", type=int, default=0, help="run mutants in parallel in isolated scratch worktrees (/repo untouched)")
    ap.add_argument("--only", default="")
    ap.add_argument("--name", default="")
    ap.add_argument("--tests", action="store_true", help="also run the repository's test-suite on each mutant")
    args = ap.parse_args()
    only = set(filter(None, args.only.split(",")))
    if args.jobs:
        from concurrent.futures import ThreadPoolExecutor

        todo = []
        for name, props, rel, old, new in MUTANTS:
            if args.name and args.name not in name:
                continue
            props = [p for p in props if not only or p in only]
            if props:
                todo.append((name, props, rel, old, new))
        summary = []
        with ThreadPoolExecutor(args.jobs) as ex:
            for rows in ex.map(run_isolated, todo):
                for name, pid, verdict, dt, mech in rows:
                    summary.append((name, pid, verdict))
                    print(f"{name:40s} {pid} {verdict:12s} {dt:5.1f}s {mech}", flush=True)
        missed = [s for s in summary if s[2] != "caught"]
        print(f"\n{len(summary) - len(missed)}/{len(summary)} caught")
        for m in missed:
            print("NOT CAUGHT:", m)
        return 1 if missed else 0
    dirty = subprocess.run(["git", "-C", str(REPO), "status", "--porcelain", "--untracked-files=no"],
                           capture_output=True, text=True).stdout.strip()
    if dirty:
        sys.exit(f"/repo has uncommitted changes, refusing to run:\n{dirty}")
    summary = []
    try:
        for name, props, rel, old, new in MUTANTS:
            if args.name and args.name not in name:
                continue
            props = [p for p in props if not only or p in only]
            if not props:
                continue
            path = SRC / rel
            src = path.read_text()
            if src.count(old) != 1:
                summary.append((name, "STALE", f"pattern found {src.count(old)}x"))
                print(f"{name}: STALE mutant (pattern found {src.count(old)} times)")
                continue
            path.write_text(src.replace(old, new))
            try:
                tests = ""
                if args.tests:
                    tp = subprocess.run(["/venv/bin/python", "-m", "pytest", "-q", "-x", "-p", "no:cacheprovider", "--no-cov"],
                                        capture_output=True, text=True, cwd=REPO)
                    tests = "tests-pass" if tp.returncode == 0 else "TESTS-FAIL"
                for pid in props:
                    rc, lines, dt = run_check(pid)
                    verdict = {0: "MISSED", 1: "caught", 2: "inconclusive"}.get(rc, f"rc={rc}")
                    if rc == 1 and not any(l.startswith("VIOLATION") for l in lines):
                        verdict = "check-error"
                    mech = "; ".join(l.split("mechanism=")[1].split(" ")[0] for l in lines if "mechanism=" in l)[:200]
                    summary.append((name, pid, verdict))
                    print(f"{name:40s} {pid} {verdict:12s} {dt:5.1f}s {tests} {mech}", flush=True)
            finally:
                restore()
    finally:
        restore()
    missed = [s for s in summary if s[2] not in ("caught",)]
    print(f"\n{len(summary) - len(missed)}/{len(summary)} caught")
    for m in missed:
        print("NOT CAUGHT:", m)
    return 1 if missed else 0


if __name__ == "__main__":
    sys.exit(main())
