#!/usr/bin/env python3
"""Confirm a seeded change delivered by a sub-agent and run the checks on it.

usage: tools/seedcheck.py <PROP> <dir-with a.diff/demo_a.py/notes_a.md> <x> [--checks C01,C05] [--tier quick] [--keep]

1. confirmation in a scratch worktree of /repo (outside /repo and /verif): the diff applies, the
   repository's test-suite passes with it, the demonstration fails with it and passes without it;
2. detection: the diff is applied to /repo (git apply), the named checks (default: the property's
   own) are run, and /repo is restored (git checkout -- .) straight afterwards;
3. with --keep the seed is stored as /verif/seeded/<PROP>-<x>/ {patch.diff, demo.py, notes.md, meta.json}.
"""
from __future__ import annotations

import argparse
import json
import shutil
import subprocess
import sys
import time
from pathlib import Path

REPO = Path("/repo")
VERIF = Path(__file__).resolve().parent.parent
PY = "/venv/bin/python"


def sh(cmd, cwd=None, env=None, timeout=900):
    import os

    e = dict(os.environ)
    e.update(env or {})
    p = subprocess.run(cmd, cwd=cwd, env=e, capture_output=True, text=True, timeout=timeout)
    return p.returncode, p.stdout + p.stderr


def main():
    ap = argparse.ArgumentParser()
    ap.add_argument("prop")
    ap.add_argument("dir")
    ap.add_argument("x")
    ap.add_argument("--checks", default=None)
    ap.add_argument("--tier", default="quick")
    ap.add_argument("--keep", action="store_true")
    ap.add_argument("--skip-confirm", action="store_true")
    ap.add_argument("--isolated", action="store_true",
                    help="apply the change in a scratch worktree and point the checks at it (YAWVERIF_SRC) instead of /repo")
    args = ap.parse_args()
    d = Path(args.dir)
    diff, demo, notes = d / f"{args.x}.diff", d / f"demo_{args.x}.py", d / f"notes_{args.x}.md"
    checks = (args.checks or args.prop).split(",")
    report = dict(property=args.prop, seed=args.x, checks={})

    if not args.skip_confirm:
        wt = Path(f"/tmp/seedconfirm-{args.prop}-{args.x}-{int(time.time())}")
        rc, out = sh(["git", "-C", str(REPO), "worktree", "add", "-q", "--detach", str(wt), "HEAD"])
        assert rc == 0, out
        try:
            shutil.copy(REPO / "src/yaw/_version.py", wt / "src/yaw/_version.py")
            env = dict(PYTHONPATH=str(wt / "src"), YAW_NUM_THREADS="1")
            rc, out = sh([PY, "-c", "import yaw; print(yaw.__file__)"], env=env)
            assert str(wt) in out, out
            rc_clean, out_clean = sh([PY, str(demo)], cwd=wt, env=env, timeout=600)
            rc, out = sh(["git", "apply", str(diff)], cwd=wt)
            report["applies"] = rc == 0
            if rc != 0:
                print("diff does not apply:", out)
            rc_tests, out_tests = sh([PY, "-m", "pytest", "-q", "-p", "no:cacheprovider", "--no-cov", "-x"], cwd=wt, env=env)
            rc_bad, out_bad = sh([PY, str(demo)], cwd=wt, env=env, timeout=600)
            report.update(demo_passes_clean=rc_clean == 0, tests_pass_with_change=rc_tests == 0,
                          demo_fails_with_change=rc_bad != 0, tests_tail=out_tests.strip().splitlines()[-1:],
                          demo_fail_tail=out_bad.strip().splitlines()[-3:])
        finally:
            sh(["git", "-C", str(REPO), "worktree", "remove", "--force", str(wt)])
        report["confirmed"] = bool(report.get("applies") and report["demo_passes_clean"]
                                   and report["tests_pass_with_change"] and report["demo_fails_with_change"])
    else:
        report["confirmed"] = None

    env_checks = {}
    iso = None
    if args.isolated:
        iso = Path(f"/tmp/seediso-{args.prop}-{args.x}-{int(time.time())}")
        rc, out = sh(["git", "-C", str(REPO), "worktree", "add", "-q", "--detach", str(iso), "HEAD"])
        assert rc == 0, out
        shutil.copy(REPO / "src/yaw/_version.py", iso / "src/yaw/_version.py")
        rc, out = sh(["git", "apply", str(diff)], cwd=iso)
        if rc != 0:
            sh(["git", "-C", str(REPO), "worktree", "remove", "--force", str(iso)])
            sys.exit(f"cannot apply to scratch worktree: {out}")
        env_checks = dict(YAWVERIF_SRC=str(iso / "src"), YAWVERIF_OUT=str(iso / "_verif_out"))
    else:
        dirty = sh(["git", "-C", str(REPO), "status", "--porcelain", "--untracked-files=no"])[1].strip()
        if dirty:
            sys.exit(f"/repo dirty, refusing: {dirty}")
        rc, out = sh(["git", "-C", str(REPO), "apply", str(diff)])
        if rc != 0:
            sys.exit(f"cannot apply to /repo: {out}")
    try:
        for pid in checks:
            t = time.time()
            rc, out = sh([str(VERIF / "check"), pid, "--tier", args.tier], cwd=VERIF, timeout=3600, env=env_checks)
            mechs = [l.split("mechanism=")[1].split(" ")[0] for l in out.splitlines() if "violation mechanism=" in l]
            viol = any(l.startswith("VIOLATION") for l in out.splitlines())
            report["checks"][pid] = dict(exit=rc, caught=bool(rc == 1 and viol), mechanisms=mechs[:8], wall_s=round(time.time() - t, 1))
    finally:
        if iso is not None:
            sh(["git", "-C", str(REPO), "worktree", "remove", "--force", str(iso)])
        else:
            sh(["git", "-C", str(REPO), "checkout", "--", "."])
    print(json.dumps(report, indent=1))
    if args.keep:
        dest = VERIF / "seeded" / f"{args.prop}-{args.x}"
        dest.mkdir(parents=True, exist_ok=True)
        shutil.copy(diff, dest / "patch.diff")
        shutil.copy(demo, dest / "demo.py")
        if notes.exists():
            shutil.copy(notes, dest / "notes.md")
        meta = dict(property=args.prop, breaks=args.prop,
                    needs_to_manifest=(notes.read_text()[:1500] if notes.exists() else ""),
                    confirmed=report, ran=[f"./check {p} --tier {args.tier}" for p in checks],
                    base_commit=sh(["git", "-C", str(REPO), "rev-parse", "--short", "HEAD"])[1].strip())
        (dest / "meta.json").write_text(json.dumps(meta, indent=1))
    return 0


if __name__ == "__main__":
    sys.exit(main())
