#!/bin/bash
# Seed sweep on the unchanged tree: tools/sweep.sh <tier> <seed> [<seed> ...]
# Prints one line per (check, seed); exit code 0 only if every run exited 0.
cd "$(dirname "$0")/.."
tier=${1:-quick}; shift
seeds=${@:-0 1 2}
rc=0
for seed in $seeds; do
  for c in C01 C02 C03 C04 C05 C06 C07 C08 C09 C10 C11 C12 C13 C14 C15 C16 C17 C18; do
    t0=$(date +%s)
    out=$(VERIF_SEED=$seed ./check $c --tier $tier 2>&1); code=$?
    t1=$(date +%s)
    echo "$c seed=$seed tier=$tier exit=$code wall=$((t1-t0))s $(echo "$out" | grep -E 'VIOLATION|INCONCLUSIVE|KNOWN-FINDING' | head -3 | tr '\n' ' ' | cut -c1-300)"
    [ $code -ne 0 ] && rc=1
  done
done
exit $rc
