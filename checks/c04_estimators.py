"""C04 — correlation estimators and the n(z) formula are applied as documented.

Reference-model monitor: the documented formulae are written out on the raw
count and weight arrays (oracles/jack.py) and compared with CorrFunc.sample(),
RedshiftData.from_corrfuncs/from_corrdata and .normalised()."""

from __future__ import annotations

import itertools
import warnings

import numpy as np

from checks.c03_jackknife import close_abs
from engines import contracts
from oracles import jack
from vlib import cats, gen
from vlib.core import HELD, VIOLATED, Check, Scratch, result, case_bits

ALL_SUBSETS = [list(c) for r in range(1, 4) for c in itertools.combinations(("dr", "rd", "rr"), r)]


def normalised_term(nc):
    """total pair count / product of total weights (half squared for auto), from raw arrays."""
    arr = nc.counts.counts
    sw1, sw2 = nc.sum_weights.sum_weights1, nc.sum_weights.sum_weights2
    nb = arr.shape[0]
    out = np.empty(nb)
    for b in range(nb):
        tot = float(arr[b].sum())
        t1, t2 = float(sw1[b].sum()), float(sw2[b].sum())
        den = t1 * t1 / 2.0 if nc.auto else t1 * t2
        with np.errstate(all="ignore"):
            out[b] = np.float64(tot) / np.float64(den)
    return out


class C04(Check):
    id = "C04"
    level = "exploration"
    rule = (
        "generated CorrFunc containers for all 7 non-empty subsets of dr/rd/rr x auto/cross x bins 1..8 x patches 2..12 "
        "(zero-count bins included) and real measurements from small catalogs: CorrFunc.sample().data against "
        "(DD-DR-RD+RR)/RR resp. DD/DR-1 | DD/RD-1 computed from the raw arrays, RR without DR must raise or substitute; "
        "RedshiftData.from_corrfuncs/from_corrdata (value and every sample) against w_sp/sqrt(dz^2 w_ss w_pp) with "
        "absent autocorrelations = 1, NaN patterns included; HistData/RedshiftData.normalised() integrate to 1 with "
        "samples scaled like the value. non-trivial = at least one finite estimator value compared; distinct = case parameters"
        ' Further classes: accessors used before sample(), bins empty in the data but populated in the randoms (0/0 terms judged through the NaN pattern), containers with more than 512 patches.'
    )
    assumptions = [
        "when both DR and RD exist without RR either Davis-Peebles form is accepted (the statement allows both)",
        "comparisons use the conditioned tolerance 1e-9 x sum|terms|/|denominator|",
    ]
    floor_nontrivial = 30
    required_counters = ("estimator_values_compared", "nz_values_compared", "normalisations_checked", "e2e_measurements")
    shards = (12, 16)
    budget = (300, 500)

    def cases(self, tier, seed):
        q = tier == "quick"
        n = 0
        for rep in range(40 if q else 1500):
            for members in ALL_SUBSETS:
                for auto in (False, True):
                    n += 1
                    yield dict(kind="estimator", seed=seed * 100003 + n, members=members, auto=auto)
        # more patches than any dense-array shortcut would allow (> 512): normalisation and samples as for few patches
        for j, members in enumerate((["dr"], ["dr", "rr"], ["dr", "rd", "rr"]) if q else ALL_SUBSETS):
            for auto in (False, True):
                n += 1
                yield dict(kind="estimator", seed=seed * 100003 + n, members=members, auto=auto, many_patches=True)
        for i in range(300 if q else 8000):
            yield dict(kind="nz", seed=seed * 1009 + i, ref=bool(i % 2), unk=bool((i // 2) % 2))
        for i in range(200 if q else 5000):
            yield dict(kind="normalise", seed=seed * 1013 + i)
        for i in range(48 if q else 1000):
            yield dict(kind="e2e", seed=seed * 1019 + i)

    def setup_worker(self):
        warnings.simplefilter("ignore")
        contracts.install()

    def execute(self, case):
        out = []
        counters = {}

        def bad(mech, detail):
            out.append(result(VIOLATED, mechanism=mech, detail=dict(case=case, **detail), nontrivial=False))

        rng = np.random.default_rng([case["seed"], 4])
        with np.errstate(all="ignore"):
            getattr(self, "_" + case["kind"])(case, rng, bad, counters)
        out.append(result(HELD, cls=case["kind"], counters=counters,
                          nontrivial=sum(counters.values()) > 0, sample=dict(case=case, counters=counters)))
        return out

    # ------------------------------------------------------------------
    def _check_estimator(self, cf, bad, counters, tag="", touch=True):
        members = [k for k in ("dr", "rd", "rr") if getattr(cf, k) is not None]
        terms = {k: normalised_term(nc) for k, nc in cf.to_dict().items()}
        wants = jack.estimator(terms)
        if touch:
            # a user inspecting the pair counts through their public accessors before sampling:
            # the estimate is a function of the measured counts, not of what was looked at before
            for nc in cf.to_dict().values():
                nc.get_array(), nc.counts.get_array(), nc.sum_weights.get_array(), nc.sample_patch_sum()
            counters["accessor_sequences_before_sample"] = counters.get("accessor_sequences_before_sample", 0) + 1
        undefined = "rr" in members and "dr" not in members
        try:
            got = cf.sample()
        except Exception as e:
            if undefined:
                counters["rr_without_dr_raised"] = counters.get("rr_without_dr_raised", 0) + 1
                return None
            bad(f"estimator:raises-{type(e).__name__}", dict(members=members, error=str(e)[:200]))
            return None
        if wants is None:
            return got
        scale = jack.estimator_scale(terms)
        # a term that is infinite (counts over a zero weight product) cannot occur in a real
        # measurement and makes algebraically equal forms of the estimator differ: not judged.
        # A term that is 0/0 (a sample without objects in that bin) makes the estimate undefined:
        # judged through the NaN pattern.
        has_inf = np.any([np.isinf(t) for t in terms.values()], axis=0)
        has_nan = np.any([np.isnan(t) for t in terms.values()], axis=0)
        ok = ~has_inf & (np.isfinite(scale) | has_nan)
        matches = []
        for w in wants:
            fin = ok & np.isfinite(w)
            # bins judged only because a term is undefined have no conditioning scale: the alternatives that are
            # finite there (e.g. DD/RD - 1 when DR is 0/0) are plain numbers, compared on scale 1
            m = close_abs(got.data[fin], w[fin], np.where(np.isfinite(scale[fin]), np.maximum(scale[fin], 1.0), 1.0), rel=1e-9)
            # NaN/inf pattern must agree where the oracle is NaN (0/0 bins)
            nanpat = np.array_equal(np.isnan(got.data[ok]), np.isnan(w[ok]))
            matches.append(m and nanpat)
        counters["estimator_values_compared"] = counters.get("estimator_values_compared", 0) + int(ok.sum())
        if ok.any() and not any(matches):
            bad(f"estimator:value-wrong:{'+'.join(members)}{tag}", dict(got=got.data.tolist(), want=[w.tolist() for w in wants], auto=bool(cf.auto)))
        return got

    def _estimator(self, case, rng, bad, counters):
        nb, npatch = int(rng.integers(1, 9)), int(rng.integers(2, 13))
        if case.get("many_patches"):
            nb, npatch = int(rng.integers(1, 3)), int(rng.integers(513, 540))
        cf = gen.gen_corrfunc(rng, nb, npatch, case["auto"], members=case["members"])
        if case_bits(case, "empty-data-bin") % 4 == 0:
            # a redshift bin without any data object (binning wider than the sample) while the randoms populate
            # it: the data terms are 0/0 there, the estimate is undefined (NaN), never a finite number
            from yaw.correlation.corrfunc import CorrFunc
            from yaw.correlation.paircounts import NormalisedCounts, PatchedCounts, PatchedSumWeights

            b = int(rng.integers(nb))
            parts = {}
            for k, nc in cf.to_dict().items():
                cnt, sw1, sw2 = nc.counts.counts.copy(), nc.sum_weights.sum_weights1.copy(), nc.sum_weights.sum_weights2.copy()
                if k in ("dd", "dr"):
                    cnt[b] = 0.0
                    sw1[b] = 0.0
                    if k == "dd" and case["auto"]:
                        sw2[b] = 0.0
                parts[k] = NormalisedCounts(PatchedCounts(cf.binning, cnt, auto=nc.auto), PatchedSumWeights(cf.binning, sw1, sw2, auto=nc.auto))
            cf = CorrFunc(**parts)
            counters["empty_data_bins"] = counters.get("empty_data_bins", 0) + 1
        self._check_estimator(cf, bad, counters, touch=case_bits(case, "touch") % 2 == 0)

    def _nz(self, case, rng, bad, counters):
        from yaw import CorrData, RedshiftData

        nb, npatch = int(rng.integers(1, 9)), int(rng.integers(2, 13))
        binning = gen.gen_binning(rng, nb)
        via_corrfunc = rng.random() < 0.5
        if via_corrfunc:
            from yaw.correlation.corrfunc import CorrFunc

            def mk(auto):
                members = [m for m in ("dr", "rd", "rr") if rng.random() < 0.5] or ["dr"]
                if "rr" in members and "dr" not in members:
                    members.insert(0, "dr")
                if auto:
                    members = [m for m in members if m != "rd"] or ["dr"]
                return CorrFunc(dd=gen.gen_normalised_counts(rng, binning, npatch, auto, sparsity=0.0),
                                **{m: gen.gen_normalised_counts(rng, binning, npatch, auto, sparsity=0.0) for m in members})

            cross = mk(False)
            ref = mk(True) if case["ref"] else None
            unk = mk(True) if case["unk"] else None
            got = RedshiftData.from_corrfuncs(cross, ref, unk)
            cd, rd, ud = cross.sample(), (ref.sample() if ref else None), (unk.sample() if unk else None)
        else:
            def mkd(positive):
                d = gen.gen_sampled(rng, CorrData, nb, npatch, binning=binning)
                if positive and rng.random() < 0.7:
                    d = CorrData(binning, np.abs(d.data) + 0.01, np.abs(d.samples) + 0.01)
                return d

            cd = mkd(False)
            rd = mkd(True) if case["ref"] else None
            ud = mkd(True) if case["unk"] else None
            got = RedshiftData.from_corrdata(cd, rd, ud)
        # explicit loops over bins and samples
        edges = binning.edges
        want_d = np.empty(nb)
        want_s = np.empty((npatch, nb))
        for b in range(nb):
            dz = edges[b + 1] - edges[b]
            ss = rd.data[b] if rd is not None else 1.0
            pp = ud.data[b] if ud is not None else 1.0
            want_d[b] = cd.data[b] / np.sqrt(np.float64(dz * dz * ss * pp))
            for k in range(npatch):
                ss = rd.samples[k, b] if rd is not None else 1.0
                pp = ud.samples[k, b] if ud is not None else 1.0
                want_s[k, b] = cd.samples[k, b] / np.sqrt(np.float64(dz * dz * ss * pp))
        counters["nz_values_compared"] = counters.get("nz_values_compared", 0) + want_d.size + want_s.size
        tag = f"{'ref' if rd is not None else ''}{'unk' if ud is not None else ''}" or "cross-only"
        if type(got) is not RedshiftData or got.binning != binning:
            bad("nz:type-or-binning", {})
        if not (close_abs(got.data, want_d, np.abs(want_d) + 1e-300, rel=1e-12) and np.array_equal(np.isnan(got.data), np.isnan(want_d))):
            bad(f"nz:value-wrong:{tag}", dict(got=got.data.tolist(), want=want_d.tolist()))
        if not (close_abs(got.samples, want_s, np.abs(want_s) + 1e-300, rel=1e-12) and np.array_equal(np.isnan(got.samples), np.isnan(want_s))):
            bad(f"nz:samples-wrong:{tag}", dict(got_shape=got.samples.shape))

    def _normalise(self, case, rng, bad, counters):
        from yaw import HistData, RedshiftData

        nb, ns = int(rng.integers(1, 9)), int(rng.integers(2, 13))
        for cls in (HistData, RedshiftData):
            binning = gen.gen_binning(rng, nb)
            obj = gen.gen_sampled(rng, cls, nb, ns, binning=binning)
            if cls is HistData:
                obj = cls(binning, np.abs(obj.data) * 100, np.abs(obj.samples) * 100)
            if rng.random() < 0.3 and nb > 1:
                obj.data[int(rng.integers(nb))] = np.nan
            n = obj.normalised()
            dz = binning.dz
            integral = float(np.nansum(dz * n.data))
            raw = float(np.nansum(dz * obj.data)) if cls is RedshiftData else float(np.nansum(obj.data))
            counters["normalisations_checked"] = counters.get("normalisations_checked", 0) + 1
            if abs(raw) < 1e-6 * float(np.nansum(np.abs(dz * obj.data) if cls is RedshiftData else np.abs(obj.data))):
                continue  # integral ~ 0 cannot be normalised meaningfully
            if not abs(integral - 1.0) <= 1e-12 * nb + 1e-13:
                bad(f"normalised:integral-not-one:{cls.__name__}", dict(integral=integral, data=obj.data.tolist(), edges=binning.edges.tolist()))
            if type(n) is not cls or n.binning != binning:
                bad(f"normalised:type-or-binning:{cls.__name__}", {})
            # samples scaled by the same per-bin factor as the value
            fin = np.isfinite(obj.data) & (obj.data != 0)
            fac = n.data[fin] / obj.data[fin]
            want_s = obj.samples[:, fin] * fac[None, :]
            if not close_abs(n.samples[:, fin], want_s, np.abs(want_s) + 1e-300, rel=1e-12):
                bad(f"normalised:samples-scaled-differently:{cls.__name__}", {})
            if cls is RedshiftData and fin.sum() > 1 and not np.allclose(fac, fac[0], rtol=1e-12):
                bad("normalised:not-a-constant-factor:RedshiftData", dict(factors=fac.tolist()))
            if cls is HistData and fin.sum() > 1:
                # density: value / dz up to one constant
                dens = fac * dz[fin]
                if not np.allclose(dens, dens[0], rtol=1e-12):
                    bad("normalised:not-a-density:HistData", dict(factors=dens.tolist()))

    def _e2e(self, case, rng, bad, counters):
        import yaw
        from yaw import Configuration, RedshiftData

        P = int(rng.integers(2, 5))
        r = np.deg2rad(0.6)
        centres = cats.layout_centres(rng, P, r * 1.4)
        cobj = cats.coords_obj(centres)
        edges = [0.1, 0.4, 0.7, 1.0]
        cfg = Configuration.create(rmin=0.05, rmax=0.8, unit="deg", edges=edges, closed=str(rng.choice(["left", "right"])))

        sparse = bool(rng.random() < 0.6)
        empty_ref_bin = case_bits(case, "empty-ref-bin") % 3 == 0  # no reference object in the first bin at all

        def mk(tmp, name, n, z, w):
            xyz, src = cats.points_around(rng, centres, n, r)
            xyz = np.concatenate([xyz, centres])
            src = np.concatenate([src, np.arange(P)])
            ra, dec = gen.xyz_to_radec(xyz)
            zz = rng.uniform(0.1, 1.0, len(ra)) if z else None
            if z and sparse:
                # the first redshift bin is empty in the first patch (and nearly empty elsewhere)
                zz[(src == 0) & (zz < 0.4)] = rng.uniform(0.41, 1.0, int(((src == 0) & (zz < 0.4)).sum()))
            if z and empty_ref_bin and name == "ref":
                zz[zz <= 0.4] = rng.uniform(0.41, 1.0, int((zz <= 0.4).sum()))
            return cats.create(tmp / name, cats.table(ra, dec, z=zz,
                                                      w=rng.uniform(0.5, 2, len(ra)) if w else None), centers=cobj)

        def record_term(nc, cat1, cat2, binned2):
            """total pair count / product of the total weights of the two samples as recounted
            from the catalogs' records (not from the sums stored with the counts)."""
            from oracles.binrule import bin_members

            r1, r2 = cats.records(cat1), cats.records(cat2)
            w1 = np.ones(len(r1["ra"])) if r1["w"] is None else r1["w"]
            w2 = np.ones(len(r2["ra"])) if r2["w"] is None else r2["w"]
            m1 = bin_members(r1["z"], edges, cfg.binning.closed)
            m2 = bin_members(r2["z"], edges, cfg.binning.closed) if binned2 else [np.ones(len(w2), bool)] * len(m1)
            out_ = np.empty(len(m1))
            for b in range(len(m1)):
                t1, t2 = w1[m1[b]].sum(), w2[m2[b]].sum()
                den = t1 * t1 / 2.0 if nc.auto else t1 * t2
                out_[b] = np.float64(nc.counts.counts[b].sum()) / np.float64(den)
            return out_

        with Scratch("c04") as tmp:
            ref, unk = mk(tmp, "ref", 40, True, True), mk(tmp, "unk", 50, False, bool(rng.random() < 0.5))
            rr, ur = mk(tmp, "rr", 60, True, False), mk(tmp, "ur", 60, False, False)
            combos = [dict(ref_rand=rr, unk_rand=ur), dict(unk_rand=ur), dict(ref_rand=rr)]
            combo = combos[int(rng.integers(3))]
            cross = yaw.crosscorrelate(cfg, ref, unk, max_workers=1, **combo)[0]
            auto = yaw.autocorrelate(cfg, ref, rr, count_rr=bool(rng.random() < 0.5), max_workers=1)[0]
            counters["e2e_measurements"] = counters.get("e2e_measurements", 0) + 2
            cd = self._check_estimator(cross, bad, counters, tag=":e2e")
            ad = self._check_estimator(auto, bad, counters, tag=":e2e")
            # the same estimators with the normalisation recounted from the input records
            pairs_of = dict(dd=(ref, unk, False), dr=(ref, ur, False), rd=(rr, unk, False), rr=(rr, ur, False))
            terms = {k: record_term(nc, *pairs_of[k]) for k, nc in cross.to_dict().items()}
            wants = jack.estimator(terms)
            scale = jack.estimator_scale(terms)
            ok = np.isfinite(scale) & np.all([np.isfinite(t) for t in terms.values()], axis=0)
            if cd is not None and wants and ok.any() and not any(
                    close_abs(cd.data[ok], w_[ok], np.maximum(scale[ok], 1.0), rel=1e-9) for w_ in wants):
                bad("estimator:value-wrong-vs-input-records:cross:e2e", dict(got=cd.data.tolist(), want=[w_.tolist() for w_ in wants], sparse=sparse))
            apairs = dict(dd=(ref, ref, True), dr=(ref, rr, True), rr=(rr, rr, True))
            terms = {k: record_term(nc, *apairs[k]) for k, nc in auto.to_dict().items()}
            wants = jack.estimator(terms)
            scale = jack.estimator_scale(terms)
            ok = np.isfinite(scale) & np.all([np.isfinite(t) for t in terms.values()], axis=0)
            if ad is not None and wants and ok.any() and not any(
                    close_abs(ad.data[ok], w_[ok], np.maximum(scale[ok], 1.0), rel=1e-9) for w_ in wants):
                bad("estimator:value-wrong-vs-input-records:auto:e2e", dict(got=ad.data.tolist(), want=[w_.tolist() for w_ in wants], sparse=sparse))
            nz = RedshiftData.from_corrfuncs(cross, auto)
            dz = np.diff(edges)
            want = cd.data / np.sqrt(dz**2 * ad.data)
            if not (close_abs(nz.data, want, np.abs(want) + 1e-300, rel=1e-12) and np.array_equal(np.isnan(nz.data), np.isnan(want))):
                bad("nz:value-wrong:e2e", dict(got=nz.data.tolist(), want=want.tolist()))


CHECK = C04()
