"""C09 — catalog creation is fail-stop: exact catalog or an exception, never a hang.

Fault + outcome-classifier monitor.  The fault matrix (fault kind x chunk
position x source x worker count) is enumerated; every creation runs in a forked
child under the quiescence watchdog of engines/procwatch.py; the oracle
classifies {returned(records) | raised | quiescent | inconclusive}, compares the
directory tree before/after and probes ``Catalog(dir)`` afterwards."""

from __future__ import annotations

import hashlib
import os
import shutil
import warnings
from pathlib import Path

import numpy as np

from engines.procwatch import run_forked
from vlib.core import ERROR, HELD, VIOLATED, Check, Scratch, case_bits, result

N = 240
CHUNK = 60  # 4 chunks
POS = {"first": 5, "middle": 130, "last": 235}

DATA_FAULTS = ["nan_ra", "inf_dec", "nan_weight", "inf_redshift", "pid_-1", "pid_32768", "pid_40000", "pid_nan", "pid_inf",
               "pid_-1_i2", "pid_-3_i1",
               "fail_worker", "fail_writer", "fail_reader"]
STRUCT_FAULTS = ["missing_column", "unequal_length", "unequal_length_longer", "unequal_length_longer_patch", "no_patch_method", "empty_centre_first", "empty_centre_middle",
                 "empty_centre_last"]
DIR_FAULTS = ["exists_valid_no_overwrite", "overwrite_valid", "overwrite_empty_dir", "overwrite_foreign_dir",
              "overwrite_regular_file", "exists_regular_file_no_overwrite", "parent_missing", "parent_is_file", "none"]


def tree_digest(path: Path):
    """Hash of a directory tree (names, sizes, contents) or file; None if absent."""
    path = Path(path)
    if not path.exists() and not path.is_symlink():
        return None
    h = hashlib.sha1()
    if path.is_file():
        h.update(b"F" + path.read_bytes())
        return h.hexdigest()
    for root, dirs, files in sorted(os.walk(path)):
        dirs.sort()
        h.update(("D" + os.path.relpath(root, path)).encode())
        for f in sorted(files):
            h.update(("f" + f).encode())
            h.update((Path(root) / f).read_bytes())
    return h.hexdigest()


def rows_digest(ra, dec, w, z):
    cols = [np.asarray(ra, dtype="f8"), np.asarray(dec, dtype="f8")]
    if w is not None:
        cols.append(np.asarray(w, dtype="f8"))
    if z is not None:
        cols.append(np.asarray(z, dtype="f8"))
    arr = np.column_stack(cols)
    order = np.lexsort(arr.T[::-1])
    return hashlib.sha1(arr[order].tobytes()).hexdigest(), len(arr)


def make_input(rng, n=N, npatch=3):
    """Input table with unique weights (k+0.5); three compact groups so that
    given centres attract objects deterministically."""
    grp = np.arange(n) % npatch
    ra = 10.0 + 3.0 * grp + rng.uniform(-0.5, 0.5, n)
    dec = -5.0 + rng.uniform(-0.5, 0.5, n)
    return dict(ra=ra, dec=dec, w=np.arange(n) + 0.5, z=rng.uniform(0.1, 1.0, n), patch=grp.astype(np.int64))


def write_hdf(path, cols, skip=None, short=None, long=None):
    import h5py

    with h5py.File(path, "w") as f:
        for k, v in cols.items():
            if k == skip:
                continue
            if k == long:
                v = np.concatenate([v, v[:7]])
            f.create_dataset(k, data=v[:-7] if k == short else v)


class C09(Check):
    id = "C09"
    level = "fault_enumeration"
    rule = (
        "enumerated fault matrix: data faults {NaN/inf in ra/dec/weight/redshift, patch index -1/32768/40000, exception "
        "injected in the worker-side split and in the writer} x position {first, middle, last chunk, only chunk} x "
        "source {DataFrame, HDF5; thorough: FITS, Parquet}; structural faults {missing column, columns of unequal length (HDF5), no patch method, a "
        "centre without objects (first/middle/last)}; directory faults {cache exists without overwrite, overwrite over a "
        "valid catalog / empty directory / directory with foreign files (also ones named patch_*) / regular file, parent missing, parent is a file} "
        "and the fault-free control; each for workers {1, 2, 4} (quick: {1, 2}) in a forked child under a quiescence "
        "watchdog. Oracle: returned => records == input; fault => must raise; never quiescent; untouched pre-existing "
        "paths; no valid catalog left after a failed creation; sequential and parallel agree. "
        "non-trivial = the fault was actually planted (or control); distinct = (fault, position, source, workers)"
        ' Further faults: compact integer index columns, zero-weight patch, file-size limits (RLIMIT_FSIZE), failing overwrite over a valid catalog, directory condition + data fault in one call, damaged Parquet row group, file sources for the directory faults.'
    )
    assumptions = [
        "a hang is a process group in which every process sleeps and no CPU time is consumed for 3 s (6 samples)",
        "non-integer patch indices are not judged (not in the statement)",
    ]
    floor_nontrivial = 20
    required_counters = ("creations_run", "faults_raised", "controls_returned_exact", "reopen_probes")
    shards = (14, 16)
    budget = (300, 900)
    exhaustive = True

    def cases(self, tier, seed):
        q = tier == "quick"
        workers = [1, 2, 4] if q else [1, 2, 3, 4]
        out = []
        for fault in DATA_FAULTS:
            positions = ["middle"] if q else ["first", "middle", "last", "only"]
            if q and fault in ("nan_ra", "fail_worker", "fail_writer", "fail_reader", "pid_-1"):
                positions = ["first", "last"]
            for pos in positions:
                for source in (["dataframe"] if q and fault not in ("nan_ra", "nan_weight") else
                               (["dataframe", "hdf5"] if q else ["dataframe", "hdf5", "fits", "parquet"])):
                    if fault.startswith("pid_") or fault.startswith("fail"):
                        modes = ["index"] if fault.startswith("pid_") else ["centres"]
                    else:
                        modes = ["centres"]
                    if fault == "pid_-3_i1" and source == "fits":
                        continue  # FITS has no signed one-byte column type
                    for mode in modes:
                        out.append(dict(fault=fault, pos=pos, source=source, mode=mode))
        for fault in STRUCT_FAULTS:
            for source in (["hdf5"] if fault.startswith("unequal_length") else (["dataframe"] if q else ["dataframe", "hdf5"])):
                out.append(dict(fault=fault, pos="-", source=source, mode="centres"))
        for fault in DIR_FAULTS:
            out.append(dict(fault=fault, pos="-", source="dataframe", mode="centres"))
            if fault != "none":  # the readers of file sources are context managers around the creation: same rules
                out.append(dict(fault=fault, pos="-", source="hdf5" if q else "fits", mode="centres"))
                if not q:
                    out.append(dict(fault=fault, pos="-", source="hdf5", mode="index"))
        # a patch whose weights sum to exactly zero (masked region): creation may refuse or succeed, but
        # identically for every worker count and never by blocking
        out.append(dict(fault="zero_weight_patch", pos="-", source="dataframe", mode="index"))
        # a failing creation over an existing catalog (overwrite=True): the old completeness marker must not survive it
        for pos in (["middle"] if q else ["first", "middle", "last"]):
            out.append(dict(fault="overwrite_valid_nan_ra", pos=pos, source="dataframe", mode="centres"))
        # a directory condition and a data fault in the same call: the call fails, what was there stays
        for fault in ("exists_valid_no_overwrite+nan_ra", "overwrite_foreign_dir+nan_ra", "overwrite_empty_dir+nan_ra"):
            out.append(dict(fault=fault, pos="middle", source="dataframe", mode="centres"))
        # an unreadable row group in the middle of a Parquet file (damaged page): an error, not the end of the input
        for pos in (["last"] if q else ["middle", "last"]):
            out.append(dict(fault="parquet_damaged_row_group", pos=pos, source="parquet", mode="centres"))
        # the cache location runs full while patch data is written (file-size limit): refuse, never return a shortened catalog
        for lim in (["total-1", "half", "record-boundary", "total-32"] if q else ["total-1", "total-8", "half", "record-boundary", "tiny", "total-32", "total-64"]):
            out.append(dict(fault=f"fsize_{lim}", pos="-", source="dataframe", mode="index"))
        # fault-free controls whose last chunk holds fewer records than there are workers
        out.append(dict(fault="none", pos="short_tail", source="dataframe", mode="centres"))
        out.append(dict(fault="none", pos="short_tail", source="dataframe" if q else "hdf5", mode="index"))
        if not q:
            out.append(dict(fault="none", pos="-", source="hdf5", mode="index"))
            out.append(dict(fault="none", pos="-", source="random", mode="centres"))
            out.append(dict(fault="exists_valid_no_overwrite", pos="-", source="random", mode="centres"))
        for c in out:
            c["workers"] = workers
            c["seed"] = seed
            yield c

    def setup_worker(self):
        warnings.simplefilter("ignore")
        import yaw  # noqa: F401  (warm the import before forking children)

    # ------------------------------------------------------------------
    def execute(self, case):
        rng = np.random.default_rng([case["seed"], 9, sum(map(ord, case["fault"] + case["pos"] + case["source"]))])
        out = []
        counters = {}
        outcomes = {}
        with Scratch("c09") as tmp:
            for nw in case["workers"]:
                res = self._one(case, rng, tmp / f"w{nw}", nw, counters)
                outcomes[nw] = res["kind"]
                for mech, detail in res["violations"]:
                    out.append(result(VIOLATED, mechanism=mech, detail=dict(case={k: v for k, v in case.items() if k != "workers"},
                                                                             workers=nw, **detail), nontrivial=False))
                if res["kind"] == "inconclusive":
                    out.append(result(ERROR, detail=f"watchdog inconclusive: {res}", nontrivial=False))
        kinds = {v for v in outcomes.values() if v in ("returned", "raised")}
        if len(kinds) > 1:
            out.append(result(VIOLATED, mechanism=f"seq-par-disagree:{case['fault']}",
                              detail=dict(case={k: v for k, v in case.items() if k != "workers"}, outcomes=outcomes), nontrivial=False))
        out.append(result(HELD, cls=case["fault"], counters=counters,
                          key=f"{case['fault']}/{case['pos']}/{case['source']}/{case['mode']}",
                          sample=dict(case={k: v for k, v in case.items() if k != "workers"}, outcomes=outcomes)))
        return out

    def _one(self, case, rng, work: Path, nw: int, counters):
        """Run one creation with ``nw`` workers; returns dict(kind, violations)."""
        import pandas as pd

        fault, pos, source, mode = case["fault"], case["pos"], case["source"], case["mode"]
        extra_nan = fault.endswith("+nan_ra")
        if extra_nan:
            fault = fault.split("+")[0]
        work.mkdir(parents=True)
        cols = make_input(np.random.default_rng([case["seed"], 99]))
        if pos == "short_tail":
            cols = {k: v[: 3 * CHUNK + 1] for k, v in cols.items()}
        n = len(cols["ra"])
        chunk = CHUNK if pos != "only" else 10 * n
        row = POS.get(pos, 130)
        centres_deg = np.array([[10.0, -5.0], [13.0, -5.0], [16.0, -5.0]])
        violations = []
        must_raise = fault not in ("none", "overwrite_valid", "zero_weight_patch")
        either = fault == "zero_weight_patch"
        fsize_limit = None
        if fault.startswith("fsize_"):
            # patch files: one header byte + 80 records of 32 bytes (ra, dec, weights, redshifts)
            total = 1 + (n // 3) * 32
            fsize_limit = {"total-32": total - 32, "total-64": total - 64, "total-1": total - 1, "total-8": total - 8, "half": 1 + 32 * (n // 6) + 5, "record-boundary": 1 + 32 * (n // 6),
                           "tiny": 40}[fault.split("_", 1)[1]]
        target = work / "cache"
        kwargs = dict(ra_name="ra", dec_name="dec", weight_name="w", redshift_name="z", chunksize=chunk,
                      max_workers=nw, overwrite=False)

        # ---- plant the fault ---------------------------------------------------------
        marker = None
        if fault == "nan_ra":
            cols["ra"][row] = np.nan
        elif fault == "inf_dec":
            cols["dec"][row] = np.inf
        elif fault == "nan_weight":
            cols["w"][row] = np.nan
        elif fault == "inf_redshift":
            cols["z"][row] = -np.inf
        elif fault in ("pid_nan", "pid_inf"):
            # a float index column with a missing value (what pandas makes of an integer column with a gap)
            cols["patch"] = cols["patch"].astype("f8")
            cols["patch"][row] = np.nan if fault == "pid_nan" else np.inf
        elif fault in ("pid_-1_i2", "pid_-3_i1"):
            # compact integer index columns (int16 / int8) with a negative entry
            cols["patch"] = cols["patch"].astype("i2" if fault.endswith("i2") else "i1")
            cols["patch"][row] = int(fault.split("_")[1])
        elif fault.startswith("pid_"):
            cols["patch"][row] = int(fault.split("_")[1])
        elif fault == "overwrite_valid_nan_ra":
            cols["ra"][row] = np.nan
        if extra_nan:
            cols["ra"][row] = np.nan
        elif fault == "zero_weight_patch":
            cols["w"][cols["patch"] == 1] = 0.0
        elif fault in ("fail_worker", "fail_writer", "fail_reader"):
            marker = float(np.deg2rad(cols["ra"][row]))
        centres = centres_deg.copy()
        if fault.startswith("empty_centre"):
            extra = np.array([[200.0, 60.0]])
            k = {"first": 0, "middle": 2, "last": 3}[fault.split("_")[2]]
            centres = np.insert(centres, k, extra, axis=0)

        if mode == "index" or fault == "unequal_length_longer_patch":
            kwargs["patch_name"] = "patch"
            mode = "index"
        if fault == "no_patch_method":
            kwargs.pop("patch_name", None)
        if fault == "missing_column":
            kwargs["redshift_name"] = "zz_missing" if source == "dataframe" else "z"

        # ---- prior disk state --------------------------------------------------------
        pre_valid_digest = None
        if fault in ("exists_valid_no_overwrite", "overwrite_valid", "overwrite_valid_nan_ra"):
            self._create_valid(target)
            pre_valid_digest = tree_digest(target)
            kwargs["overwrite"] = fault != "exists_valid_no_overwrite"
        elif fault == "overwrite_empty_dir":
            target.mkdir()
            kwargs["overwrite"] = True
        elif fault == "overwrite_foreign_dir":
            (target / "sub").mkdir(parents=True)
            (target / "thesis.tex").write_text("precious")
            (target / "sub" / "data.csv").write_text("1,2,3")
            if (case_bits({k: v for k, v in case.items() if k != "workers"}, "patchlike-foreign") + nw) & 1:
                # entries that merely look like parts of a cache (round 7: leftovers taken for a cache)
                (target / "patch_notes.txt").write_text("precious too")
                (target / "patch_7").mkdir()
                (target / "patch_7" / "data.bin").write_bytes(b"\x00" * 24)
            kwargs["overwrite"] = True
        elif fault in ("overwrite_regular_file", "exists_regular_file_no_overwrite"):
            target.write_text("precious")
            kwargs["overwrite"] = fault == "overwrite_regular_file"
        elif fault == "parent_missing":
            target = work / "nowhere" / "cache"
        elif fault == "parent_is_file":
            (work / "afile").write_text("x")
            target = work / "afile" / "cache"
        before = tree_digest(target)

        # ---- source --------------------------------------------------------------------
        hpath = work / "input.hdf5"
        if source == "hdf5":
            write_hdf(hpath, cols, skip="z" if fault == "missing_column" else None,
                      short="w" if fault == "unequal_length" else None,
                      long="z" if fault == "unequal_length_longer" else ("patch" if fault == "unequal_length_longer_patch" else None))
        elif source in ("fits", "parquet"):
            from vlib import sources as vsources

            hpath = work / ("input" + vsources.EXT[source])
            fcols = {k: v for k, v in cols.items() if not (fault == "missing_column" and k == "z")}
            vsources.write_source(source, hpath, fcols, row_group_size=50)
            if fault == "parquet_damaged_row_group":
                from pyarrow import parquet as _pq

                md = _pq.ParquetFile(hpath).metadata
                k = md.num_row_groups - 1 if pos == "last" else md.num_row_groups // 2
                col = md.row_group(k).column(0)
                offset = col.dictionary_page_offset if col.has_dictionary_page else col.data_page_offset
                with open(hpath, "r+b") as f:  # the page header of one column chunk becomes garbage, the footer stays intact
                    f.seek(offset)
                    f.write(b"\xff" * 16)
        expected = rows_digest(np.deg2rad(cols["ra"]), np.deg2rad(cols["dec"]), cols["w"], cols["z"])

        def run():
            import yaw.catalog.catalog as ycat
            from yaw import AngularCoordinates, Catalog
            from yaw.randoms import BoxRandoms

            kw = dict(kwargs)
            if mode == "centres" and fault != "no_patch_method":
                kw["patch_centers"] = AngularCoordinates(np.deg2rad(centres))
            if marker is not None:
                if fault == "fail_reader":
                    from yaw.catalog import readers

                    orig_next = readers.DataChunkReader.__next__

                    def failing_next(self_):
                        chunk_ = orig_next(self_)
                        if chunk_ is not None and np.any(chunk_["ra"] == marker):
                            raise RuntimeError("injected reader fault")
                        return chunk_

                    readers.DataChunkReader.__next__ = failing_next
                elif fault == "fail_worker":
                    orig = ycat.split_into_patches

                    def failing_split(chunk_, centers_):
                        if np.any(chunk_["ra"] == marker):
                            raise RuntimeError("injected worker fault")
                        return orig(chunk_, centers_)

                    ycat.split_into_patches = failing_split
                else:
                    orig_pp = ycat.CatalogWriter.process_patches

                    def failing_pp(self_, patches):
                        if any(np.any(p["ra"] == marker) for p in patches.values()):
                            raise RuntimeError("injected writer fault")
                        return orig_pp(self_, patches)

                    ycat.CatalogWriter.process_patches = failing_pp
            if fsize_limit is not None:
                import resource
                import signal

                signal.signal(signal.SIGXFSZ, signal.SIG_IGN)
                _soft, hard = resource.getrlimit(resource.RLIMIT_FSIZE)
                resource.setrlimit(resource.RLIMIT_FSIZE, (fsize_limit, hard))
                try:
                    cat = Catalog.from_dataframe(target, pd.DataFrame(cols), **kw)
                finally:
                    resource.setrlimit(resource.RLIMIT_FSIZE, (hard, hard))
            elif source == "dataframe":
                cat = Catalog.from_dataframe(target, pd.DataFrame(cols), **kw)
            elif source in ("hdf5", "fits", "parquet"):
                cat = Catalog.from_file(target, hpath, **kw)
            else:
                gen_ = BoxRandoms(9.0, 17.0, -6.0, -4.0, weights=cols["w"], redshifts=cols["z"], seed=3)
                for k in ("ra_name", "dec_name", "weight_name", "redshift_name", "patch_name"):
                    kw.pop(k, None)
                cat = Catalog.from_random(target, gen_, n, **kw)
            rows = [cat[p].load_data() for p in cat]
            allrows = np.concatenate(rows)
            dig = rows_digest(allrows["ra"], allrows["dec"], allrows["weights"], allrows["redshifts"])
            return dict(keys=[int(k) for k in cat.keys()], digest=dig[0], n=int(dig[1]),
                        meta_n=[int(x) for x in cat.get_num_records()])

        os.environ["YAW_NUM_THREADS"] = str(max(nw, 1))
        res = run_forked(run, workdir=work, wall_cap=90.0)
        os.environ["YAW_NUM_THREADS"] = "1"
        counters["creations_run"] = counters.get("creations_run", 0) + 1
        mode_tag = "sequential" if nw == 1 else "parallel"
        kind = res["outcome"]
        after = tree_digest(target)

        if kind == "quiescent":
            frames = [ln.strip() for ln in res.get("stack", "").splitlines() if "/repo/src/yaw" in ln]
            site = frames[0].split(" in ")[-1] if frames else "?"
            violations.append((f"hang:{mode_tag}:{site}", dict(fault=fault, processes=len(res["processes"]), after_s=res["after_s"],
                                                               stack=frames[:4])))
        elif kind == "died":
            violations.append((f"process-died:{mode_tag}", dict(fault=fault, status=res.get("status"))))
        elif kind == "returned":
            v = res["value"]
            if must_raise:
                what = "other-data" if (v["digest"], v["n"]) != expected else "input-data"
                violations.append((f"fault-accepted:{fault}:{mode_tag}", dict(returned=what, n=v["n"], keys=v["keys"])))
            elif source != "random":
                if (v["digest"], v["n"]) != expected:
                    violations.append((f"returned-other-data:{fault}:{mode_tag}", dict(n=v["n"], want_n=expected[1])))
                else:
                    counters["controls_returned_exact"] = counters.get("controls_returned_exact", 0) + 1
            else:
                if v["n"] != n or sum(v["meta_n"]) != n:
                    violations.append((f"returned-other-data:{fault}:{mode_tag}", dict(n=v["n"], want_n=n)))
                else:
                    counters["controls_returned_exact"] = counters.get("controls_returned_exact", 0) + 1
        elif kind == "raised":
            if either:
                counters["faults_raised"] = counters.get("faults_raised", 0) + 1
            elif not must_raise:
                violations.append((f"spurious-raise:{fault}:{mode_tag}", dict(error=f"{res['type']}: {res['message']}")))
            else:
                counters["faults_raised"] = counters.get("faults_raised", 0) + 1

        # ---- directory oracle ---------------------------------------------------------------
        untouchable = fault in ("exists_valid_no_overwrite", "overwrite_empty_dir", "overwrite_foreign_dir",
                                "overwrite_regular_file", "exists_regular_file_no_overwrite")
        if untouchable and kind in ("raised", "returned", "quiescent") and after != before:
            what = "deleted" if after is None else "modified"
            violations.append((f"pre-existing-path-{what}:{fault}:{mode_tag}", dict(outcome=kind)))
        if kind in ("raised", "quiescent") and fault not in ("exists_valid_no_overwrite",) and target.exists() and target.is_dir():
            # a failed creation must not leave something that opens as a valid catalog
            from yaw import Catalog

            counters["reopen_probes"] = counters.get("reopen_probes", 0) + 1
            try:
                c = Catalog(target, max_workers=1)
                nrec = int(sum(c.get_num_records()))
                # a pre-existing catalog that the failed call left exactly as it was is "never started", not a leftover
                if not ((untouchable and after == before) or (pre_valid_digest is not None and after == pre_valid_digest)):
                    violations.append((f"failed-creation-leaves-valid-catalog:{mode_tag}",
                                       dict(fault=fault, records=nrec, of=n, outcome=kind)))
            except Exception:
                pass
        if fault == "exists_valid_no_overwrite":
            counters["reopen_probes"] = counters.get("reopen_probes", 0) + 1
            if after != pre_valid_digest:
                pass  # reported above as modified
        shutil.rmtree(work, ignore_errors=True)
        return dict(kind=kind, violations=violations)

    def _create_valid(self, target):
        import pandas as pd

        from yaw import Catalog

        rng = np.random.default_rng(7)
        m = 50
        df = pd.DataFrame(dict(ra=rng.uniform(100, 101, m), dec=rng.uniform(20, 21, m), w=1000.5 + np.arange(m),
                               z=rng.uniform(0.1, 1, m), patch=np.arange(m) % 2))
        Catalog.from_dataframe(target, df, ra_name="ra", dec_name="dec", weight_name="w", redshift_name="z",
                               patch_name="patch", max_workers=1)


CHECK = C09()
