"""Drivers of the C06 monitor: the same function is executed by every rank of a
simulated MPI world and by the single-process reference server.  Nothing here
imports yaw at module level (the back end is chosen at import time)."""

from __future__ import annotations

import hashlib
import shutil
from pathlib import Path

import numpy as np


def h(b):
    return hashlib.sha1(b).hexdigest()


def make_table(seed, n, npatch=3, with_z=True):
    rng = np.random.default_rng([seed, 606])
    grp = np.arange(n) % npatch
    ra = 20.0 + 2.0 * grp + rng.uniform(-0.6, 0.6, n)
    dec = 5.0 + rng.uniform(-0.6, 0.6, n)
    cols = dict(ra=ra, dec=dec, w=np.arange(n) + 0.5, patch=grp.astype("i8"))
    if with_z:
        cols["z"] = rng.uniform(0.1, 1.0, n)
    return cols


CENTRES_DEG = np.array([[20.0, 5.0], [22.0, 5.0], [24.0, 5.0]])
EDGES = [0.1, 0.4, 0.7, 1.0]


def catalog_digest(cat):
    per = {}
    for p in cat:
        d = cat[p].load_data()
        per[str(int(p))] = [int(len(d)), h(np.sort(d, order=list(d.dtype.names)).tobytes())]
    # numeric metadata (compared with a tolerance: the row order inside a patch file depends on the
    # order in which the parts reach the writer, so means and sums differ in the last bits)
    meta = {str(int(p)): [int(cat[p].meta.num_records), float(cat[p].meta.sum_weights),
                          [float(x) for x in cat[p].meta.center.data[0]], float(cat[p].meta.radius.data[0])]
            for p in cat}
    return dict(per_patch=per, meta=meta, keys=[int(k) for k in cat.keys()])


def same_result(a, b):
    """Equality of two driver results; catalog metadata to 1e-9 (absolute, radian / relative for sums)."""
    if isinstance(a, dict) and isinstance(b, dict) and "meta" in a and "meta" in b:
        if {k: v for k, v in a.items() if k != "meta"} != {k: v for k, v in b.items() if k != "meta"}:
            return False
        if a["meta"].keys() != b["meta"].keys():
            return False
        for k in a["meta"]:
            (n1, s1, c1, r1), (n2, s2, c2, r2) = a["meta"][k], b["meta"][k]
            if n1 != n2 or abs(s1 - s2) > 1e-9 * max(1.0, abs(s2)) or abs(r1 - r2) > 1e-9:
                return False
            if max(abs(c1[0] - c2[0]), abs(c1[1] - c2[1])) > 1e-9:
                return False
        return True
    return a == b


def corrfunc_digest(cfs):
    parts = []
    for cf in cfs:
        for kind in ("dd", "dr", "rd", "rr"):
            nc = getattr(cf, kind)
            parts.append(b"-" if nc is None else nc.counts.counts.tobytes() + nc.sum_weights.sum_weights1.tobytes() + nc.sum_weights.sum_weights2.tobytes())
    return h(b"|".join(parts))


def trees_digest(cat):
    from yaw.catalog.trees import BinnedTrees

    parts = []
    for pid in cat:
        bt = BinnedTrees(cat[pid])
        trees = bt.trees if bt.is_binned() else (bt.trees,)
        for t in trees:
            parts.append(repr((t.num_records, t.sum_weights)).encode() + t.data.tobytes())
        parts.append((cat[pid].cache_path / "binning").read_bytes())
    return h(b"|".join(parts))


def prepare_base(workdir: Path, seed: int):
    """Pre-built catalogs used by the non-creation drivers (single-process back end only)."""
    import pandas as pd

    from yaw import AngularCoordinates, Catalog

    base = Path(workdir)
    base.mkdir(parents=True, exist_ok=True)
    cen = AngularCoordinates(np.deg2rad(CENTRES_DEG))
    for name, n, z in (("ref", 90, True), ("unk", 100, False), ("rr", 120, True), ("ur", 120, False)):
        cols = make_table(seed + hash(name) % 97, n, with_z=z)
        kw = dict(ra_name="ra", dec_name="dec", weight_name="w", patch_centers=cen, max_workers=1)
        if z:
            kw["redshift_name"] = "z"
        Catalog.from_dataframe(base / name, pd.DataFrame(cols), **kw)
    return True


def task_fn(x, offset):
    """Work item of the ``tasks`` driver (module level: sent to pool workers by reference)."""
    return (int(x), int(x) * int(x) + offset)


def run_driver(name, params, workdir):
    """Executed on every rank (and in the reference server)."""
    import pandas as pd

    import yaw
    from yaw import AngularCoordinates, Catalog, Configuration, CorrData, HistData
    from yaw.correlation.corrfunc import CorrFunc

    workdir = Path(workdir)
    mw = params.get("max_workers")
    progress = bool(params.get("progress"))
    cfg = Configuration.create(rmin=[0.05, 0.2], rmax=[0.5, 1.0], unit="deg", edges=EDGES, max_workers=params.get("cfg_workers"))

    if name == "create":
        cols = make_table(params["seed"], params["n"])
        kw = dict(ra_name="ra", dec_name="dec", weight_name="w", redshift_name="z", chunksize=params["chunk"], max_workers=mw, progress=progress)
        if params["mode"] in ("centres", "centres_overwrite"):
            kw["patch_centers"] = AngularCoordinates(np.deg2rad(CENTRES_DEG))
            if params["mode"] == "centres_overwrite":
                # a complete catalog of other data already sits at the path: created again with overwrite=True
                first = pd.DataFrame({k: v[: max(3, params["n"] // 2)][::-1] for k, v in cols.items()})
                Catalog.from_dataframe(workdir / "out", first, **kw)
                kw["overwrite"] = True
        elif params["mode"] == "empty_centre":
            # one of the given centres attracts no object: refused (ValueError) by every rank, as by a single process
            kw["patch_centers"] = AngularCoordinates(np.deg2rad(np.vstack([CENTRES_DEG, [[200.0, -60.0]]])))
        elif params["mode"] == "generate":
            kw.update(patch_num=2, probe_size=params["n"])
        else:
            kw["patch_name"] = "patch"
        if params["source"] == "dataframe":
            cat = Catalog.from_dataframe(workdir / "out", pd.DataFrame(cols), **kw)
        elif params["source"] in ("hdf5", "fits", "parquet"):
            ext = {"hdf5": ".hdf5", "fits": ".fits", "parquet": ".pqt"}[params["source"]]
            cat = Catalog.from_file(workdir / "out", workdir / ("input" + ext), **kw)
        else:
            from yaw.randoms import BoxRandoms

            g = BoxRandoms(19.0, 25.0, 4.0, 6.0, weights=cols["w"], redshifts=cols["z"], seed=params["seed"] % 1000)
            pkw = (dict(patch_num=2, probe_size=params["n"]) if params["mode"] == "generate"
                   else dict(patch_centers=AngularCoordinates(np.deg2rad(CENTRES_DEG))))
            cat = Catalog.from_random(workdir / "out", g, params["n"], chunksize=params["chunk"], max_workers=mw, progress=progress, **pkw)
        if params["mode"] == "generate":
            # generated centres are not reproducible between runs by documentation: structural digest only
            # (all records once, every record nearest to its patch's reported centre)
            rows = np.concatenate([cat[p].load_data() for p in cat])
            cen = cat.get_centers().to_3d()
            ok = True
            for p in cat:
                d = cat[p].load_data()
                xyz = AngularCoordinates(np.column_stack([d["ra"], d["dec"]])).to_3d()
                dist = ((xyz[:, None, :] - cen[None, :, :]) ** 2).sum(axis=2)
                srt = np.sort(dist, axis=1)
                margin = srt[:, 1] - srt[:, 0] if dist.shape[1] > 1 else np.ones(len(d))
                ok &= bool(np.all((dist.argmin(axis=1) == list(cat.keys()).index(p)) | (margin < 1e-12)))
            return dict(all=h(np.sort(rows, order=list(rows.dtype.names)).tobytes()), n=int(len(rows)), keys=[int(k) for k in cat.keys()],
                        partition_reproduced=ok)
        return catalog_digest(cat)

    if name == "tasks":
        # the task iterator itself, with its documented options (worker limit, root's node only)
        from yaw.utils import parallel

        got = list(parallel.iter_unordered(task_fn, list(range(params["n"])), func_args=(3,), max_workers=mw,
                                           rank0_node_only=bool(params.get("node_only"))))
        return dict(results=sorted(got), count=len(got))

    base = workdir / "base"
    if name == "reopen":
        for f in base.glob("ref/patch_*/meta.yml"):
            pass
        return catalog_digest(Catalog(base / "ref", max_workers=mw))
    if name == "reopen_compute_meta":
        return catalog_digest(Catalog(base / "nometa", max_workers=mw))
    cats_ = {k: Catalog(base / k, max_workers=mw) for k in ("ref", "unk", "rr", "ur")}
    if name == "trees":
        cats_["ref"].build_trees(EDGES, closed="right", max_workers=mw, progress=progress)
        cats_["unk"].build_trees(None, max_workers=mw, progress=progress)
        return dict(ref=trees_digest(cats_["ref"]), unk=trees_digest(cats_["unk"]))
    if name == "cross":
        cfs = yaw.crosscorrelate(cfg, cats_["ref"], cats_["unk"], ref_rand=cats_["rr"], unk_rand=cats_["ur"], max_workers=mw, progress=progress)
        return dict(cf=corrfunc_digest(cfs))
    if name == "auto":
        cfs = yaw.autocorrelate(cfg, cats_["ref"], cats_["rr"], max_workers=mw, progress=progress)
        return dict(cf=corrfunc_digest(cfs))
    if name == "hist":
        hd = HistData.from_catalog(cats_["ref"], cfg, progress=progress, max_workers=mw)
        return dict(data=h(hd.data.tobytes()), samples=h(hd.samples.tobytes()))
    if name == "io":
        # result I/O: written by root, read back and broadcast to every rank
        from vlib import gen

        rng = np.random.default_rng(params["seed"])
        cf = gen.gen_corrfunc(rng, 3, 4, False, members=["dr", "rr"], sparsity=0.0)
        cf.to_file(workdir / "cf.hdf")
        back = CorrFunc.from_file(workdir / "cf.hdf")
        with np.errstate(all="ignore"):
            cd = cf.sample()
        cd.to_files(workdir / "cd")
        cd_back = CorrData.from_files(workdir / "cd")
        cfg.to_file(workdir / "cfg.yml")
        cfg_back = Configuration.from_file(workdir / "cfg.yml")
        return dict(cf=corrfunc_digest([back]), cf_equal=bool(back == cf),
                    cd=h(np.round(cd_back.data, 6).tobytes() + np.round(cd_back.samples, 6).tobytes()),
                    cfg=repr(cfg_back.to_dict()))
    raise ValueError(name)


def reference_server(conn):
    """Runs in a process started *before* the simulated mpi4py is put on sys.path: answers
    (command, args) requests with the single-process back end of the library."""
    import os
    import traceback
    import warnings

    warnings.simplefilter("ignore")
    os.environ["YAW_NUM_THREADS"] = "1"
    os.dup2(os.open(os.devnull, os.O_WRONLY), 2)  # progress bars go to stderr
    while True:
        try:
            cmd, args = conn.recv()
        except EOFError:
            return
        try:
            if cmd == "stop":
                conn.send(("ok", None))
                return
            if cmd == "prepare":
                workdir, seed = args
                prepare_base(Path(workdir) / "base", seed)
                nometa = Path(workdir) / "base" / "nometa"
                shutil.copytree(Path(workdir) / "base" / "ref", nometa)
                for f in nometa.glob("patch_*/meta.yml"):
                    f.unlink()
                conn.send(("ok", True))
            elif cmd == "write_source":
                kind, path, seed, n = args
                from vlib import sources

                sources.write_source(kind, path, make_table(seed, n), row_group_size=max(1, n // 3))
                conn.send(("ok", True))
            elif cmd == "run":
                name, params, workdir = args
                p = dict(params)
                if p.get("max_workers") is not None:
                    p["max_workers"] = 1
                conn.send(("ok", run_driver(name, p, workdir)))
            else:
                conn.send(("error", f"unknown command {cmd}"))
        except BaseException as e:  # noqa: BLE001
            conn.send(("raised", dict(type=type(e).__name__, message=str(e)[:300], tb=traceback.format_exc(limit=6))))
