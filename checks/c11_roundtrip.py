"""C11 — every persisted product reads back equal to what was written.

Round-trip monitors over generated containers and configurations.  The text
format oracle is computed with ``decimal`` independently of the repository's
formatter (DESIGN §4 C11)."""

from __future__ import annotations

import itertools
import warnings
from decimal import ROUND_DOWN, ROUND_HALF_EVEN, Decimal

import numpy as np

from checks.c15_config import describe, gen_params, realise
from engines import contracts
from vlib import gen
from vlib.core import HELD, VIOLATED, Check, Scratch, case_bits, result

WIDTH = 10


def field_value(x: float) -> float:
    """The value a 10-character fixed-width field holds for x: round to 10
    decimals, then cut to sign + integer digits + as many decimals as fit."""
    x = float(x)
    if x != x:
        return float("nan")
    if x in (float("inf"), float("-inf")):
        return x
    d = Decimal(x).quantize(Decimal("1e-10"), rounding=ROUND_HALF_EVEN)
    int_digits = len(str(abs(int(d))))  # at least 1 ("0")
    decimals = WIDTH - 1 - int_digits - 1  # sign, digits, point
    if decimals < 0:
        decimals = 0
    cut = d.quantize(Decimal(1).scaleb(-decimals), rounding=ROUND_DOWN)
    return float(cut)


def field_array(a):
    a = np.asarray(a, dtype=float)
    return np.array([field_value(v) for v in a.ravel()]).reshape(a.shape)


def same(a, b):
    return np.shape(a) == np.shape(b) and np.array_equal(a, b, equal_nan=True)


class C11(Check):
    id = "C11"
    level = "exploration"
    rule = (
        "seeded objects per product kind: CorrFunc/NormalisedCounts/PatchedCounts/PatchedSumWeights/Binning through "
        "HDF5 (all 8 subsets of dr/rd/rr, all-zero and sparse counts, auto/cross, 1..8 bins, 1..12 patches), "
        "Configuration through YAML (C15 parameter generator restricted to named cosmologies, custom edges included), "
        "CorrData/RedshiftData/HistData through .dat/.smp (1..8 bins, 1..12 samples, NaN/inf, magnitudes 1e-9..1e12) "
        "against a decimal-based field oracle, Metadata through YAML, catalogs through their cache directory; "
        "non-trivial = object written, read back and compared member by member; distinct = (kind, seed)"
        ' Further classes: HDF5 files written over an earlier product with more members, auto containers with two different weight arrays, patch selections in any order before the round trip, centres in any RA convention, numpy-typed and single-precision parameters, sibling prefixes, getter values and types of created vs reopened catalogs.'
    )
    assumptions = [
        "the fixed-width text field holds round(x, 10 decimals) cut to 10 characters; generated bins are wider than "
        "2e-6 so written edges stay strictly increasing",
        "custom cosmologies cannot be serialised (documented ConfigError) and are excluded",
    ]
    floor_nontrivial = 40
    required_counters = ("hdf_roundtrips", "yaml_config_roundtrips", "ascii_roundtrips", "metadata_roundtrips",
                         "catalog_roundtrips")
    shards = (8, 16)
    budget = (300, 500)

    def cases(self, tier, seed):
        q = tier == "quick"
        subsets = [list(c) for r in range(0, 4) for c in itertools.combinations(("dr", "rd", "rr"), r)]
        n = 0
        for rep in range(8 if q else 120):
            for members in subsets:
                for auto in (False, True):
                    for zero in ("random", "zeros", "sparse"):
                        n += 1
                        yield dict(kind="corrfunc", seed=seed * 1000 + n, members=members, auto=auto, fill=zero)
        for i in range(12 if q else 300):
            yield dict(kind="counts-parts", seed=seed * 1000 + i)
        for i in range(400 if q else 10000):
            yield dict(kind="config", seed=seed * 100019 + i)
        for cls in ("CorrData", "RedshiftData", "HistData"):
            for i in range(120 if q else 4000):
                bins = 1 + (i % 8)
                yield dict(kind="ascii", cls=cls, seed=seed * 1000 + i, bins=bins, special=bool(i % 3 == 0))
        for i in range(100 if q else 3000):
            yield dict(kind="metadata", seed=seed * 1000 + i)
        for i in range(24 if q else 400):
            yield dict(kind="catalog", seed=seed * 1000 + i)

    def setup_worker(self):
        contracts.install()
        warnings.simplefilter("ignore")

    def execute(self, case):
        kind = case["kind"]
        rng = np.random.default_rng([case["seed"], 11, sum(map(ord, kind))])
        out = []

        def bad(mech, detail):
            out.append(result(VIOLATED, mechanism=mech, detail=dict(case=case, **detail), nontrivial=False))

        with Scratch("c11") as tmp:
            if kind == "corrfunc":
                self._corrfunc(case, rng, tmp, bad, out)
            elif kind == "counts-parts":
                self._parts(case, rng, tmp, bad, out)
            elif kind == "config":
                self._config(case, rng, tmp, bad, out)
            elif kind == "ascii":
                self._ascii(case, rng, tmp, bad, out)
            elif kind == "metadata":
                self._metadata(case, rng, tmp, bad, out)
            elif kind == "catalog":
                self._catalog(case, rng, tmp, bad, out)
        return out

    # ------------------------------------------------------------------
    def _corrfunc(self, case, rng, tmp, bad, out):
        from yaw.correlation.corrfunc import CorrFunc, EstimatorError

        members = case["members"]
        nb, npatch = int(rng.integers(1, 9)), int(rng.integers(1, 13))
        sparsity = {"random": None, "zeros": 1.0, "sparse": 0.85}[case["fill"]]
        if not members:
            # a CorrFunc without any random counts must be refused at construction
            try:
                binning = gen.gen_binning(rng, nb)
                CorrFunc(gen.gen_normalised_counts(rng, binning, npatch, case["auto"]))
                bad("corrfunc:dd-only-accepted", {})
            except EstimatorError:
                pass
            out.append(result(HELD, cls="corrfunc-ddonly", nontrivial=False))
            return
        cf = gen.gen_corrfunc(rng, nb, npatch, case["auto"], members=members, sparsity=sparsity, special=True,
                              independent_weights=case["seed"] % 3 == 0)
        if npatch >= 3 and case["seed"] % 4 == 1:
            # a container derived by selecting patches in another order (auto containers then hold counts
            # below the diagonal): written and read back like any other
            sel = rng.permutation(npatch)[: int(rng.integers(2, npatch + 1))].tolist()
            try:
                cf = cf.patches[sel]
                npatch = len(sel)
            except Exception:
                pass  # list selections are not part of this property
        path = tmp / "cf.hdf"
        if case_bits(case, "earlier-product-at-path") & 1:
            # the path already holds an earlier product with every member (and usually another shape):
            # what is read back is what was written last, nothing of the earlier file (round 7)
            orng = np.random.default_rng([case["seed"], 1107])
            keep_shape = bool(orng.integers(2))
            earlier = gen.gen_corrfunc(orng, nb if keep_shape else nb + 1, npatch if keep_shape else npatch + 2, case["auto"],
                                       members=["dr", "rr"] if case["auto"] else ["dr", "rd", "rr"], sparsity=0.0)
            earlier.to_file(path)
        try:
            cf.to_file(path)
            back = CorrFunc.from_file(path)
        except Exception as e:
            bad(f"corrfunc-hdf:raises-{type(e).__name__}", dict(error=str(e)[:300]))
            return
        if not (back == cf):
            bad("corrfunc-hdf:not-equal", dict(nb=nb, npatch=npatch))
        if set(back.to_dict()) != set(cf.to_dict()):
            bad("corrfunc-hdf:members-differ", dict(got=sorted(back.to_dict()), want=sorted(cf.to_dict())))
        else:
            for k, nc in cf.to_dict().items():
                b = getattr(back, k)
                if not (same(b.counts.counts, nc.counts.counts) and b.counts.counts.dtype == np.float64):
                    bad("corrfunc-hdf:counts-differ", dict(member=k))
                if not (same(b.sum_weights.sum_weights1, nc.sum_weights.sum_weights1)
                        and same(b.sum_weights.sum_weights2, nc.sum_weights.sum_weights2)):
                    bad("corrfunc-hdf:sum-weights-differ", dict(member=k))
                if bool(b.auto) != bool(nc.auto) or bool(b.sum_weights.auto) != bool(nc.sum_weights.auto):
                    bad("corrfunc-hdf:auto-differs", dict(member=k))
                if not (same(b.binning.edges, nc.binning.edges) and b.binning.closed == nc.binning.closed
                        and same(b.sum_weights.binning.edges, nc.binning.edges)):
                    bad("corrfunc-hdf:binning-differs", dict(member=k))
            if "dr" in members or "rr" not in members:
                with np.errstate(all="ignore"):
                    a, b = cf.sample(), back.sample()
                if not (same(a.data, b.data) and same(a.samples, b.samples)):
                    bad("corrfunc-hdf:sample-differs", {})
        out.append(result(HELD, cls=f"corrfunc-{'+'.join(members)}-{case['fill']}", counters=dict(hdf_roundtrips=1),
                          sample=dict(case=case, bins=nb, patches=npatch)))

    def _parts(self, case, rng, tmp, bad, out):
        from yaw.binning import Binning
        from yaw.correlation.paircounts import NormalisedCounts, PatchedCounts, PatchedSumWeights

        nb, npatch, auto = int(rng.integers(1, 9)), int(rng.integers(1, 13)), bool(rng.random() < 0.5)
        binning = gen.gen_binning(rng, nb)
        nc = gen.gen_normalised_counts(rng, binning, npatch, auto, special=True, independent_weights=case["seed"] % 2 == 0)
        n = 0
        for name, obj, cls in (("binning", binning, Binning), ("counts", nc.counts, PatchedCounts),
                               ("sum_weights", nc.sum_weights, PatchedSumWeights), ("normalised", nc, NormalisedCounts)):
            path = tmp / f"{name}.hdf"
            try:
                obj.to_file(path)
                back = cls.from_file(path)
            except Exception as e:
                bad(f"{name}-hdf:raises-{type(e).__name__}", dict(error=str(e)[:300]))
                continue
            n += 1
            if not (back == obj):
                bad(f"{name}-hdf:not-equal", dict(nb=nb, npatch=npatch, auto=auto))
        out.append(result(HELD, cls="counts-parts", counters=dict(hdf_roundtrips=n)))

    def _config(self, case, rng, tmp, bad, out):
        from yaw import Configuration

        rng = np.random.default_rng([case["seed"], 15])  # same stream as C15
        p = gen_params(rng)
        if str(p.get("cosmology", "")).startswith(("custom", "flcdm")):
            p["cosmology"] = "WMAP7"  # only named cosmologies can be serialised (documented)
        nt = [False, True, False, "f4"][case["seed"] % 4]
        if nt == "f4":
            for k in ("zmin", "zmax"):
                if isinstance(p.get(k), float):
                    p[k] = float(np.float32(p[k]))
            if "zmin" in p and not p["zmin"] < p["zmax"]:
                nt = False
        cfg = Configuration.create(**realise(p, numpy_types=nt))
        path = tmp / "config.yml"
        tag = "custom-edges" if "edges" in p else p["method"]
        try:
            cfg.to_file(path)
            back = Configuration.from_file(path)
        except Exception as e:
            bad(f"config-yaml:raises-{type(e).__name__}:{tag}", dict(params=p, error=f"{e}"[:300]))
            return
        if not same(back.binning.edges, cfg.binning.edges):
            dev = float(np.abs(back.binning.edges - cfg.binning.edges).max()) if back.binning.edges.shape == cfg.binning.edges.shape else None
            bad(f"config-yaml:edges-differ:{tag}", dict(params=p, maxdev=dev))
        elif describe(back) != describe(cfg) or back.to_dict() != cfg.to_dict():
            bad(f"config-yaml:differs:{tag}", dict(params=p, got=back.to_dict(), want=cfg.to_dict()))
        else:
            try:
                if not (back == cfg):
                    bad("config-yaml:eq-false", dict(params=p))
            except Exception as e:
                bad(f"config-yaml:eq-raises-{type(e).__name__}", dict(params=p))
        z = float(cfg.binning.binning.mids[0])
        a = cfg.scales.scales.get_angle_radian(z, cosmology=cfg.cosmology)
        b = back.scales.scales.get_angle_radian(z, cosmology=back.cosmology)
        if not (same(a[0], b[0]) and same(a[1], b[1])):
            bad("config-yaml:angles-differ", dict(params=p))
        out.append(result(HELD, cls=f"config-{tag}", counters=dict(yaml_config_roundtrips=1), sample=dict(params=p)))

    def _ascii(self, case, rng, tmp, bad, out):
        import yaw
        from yaw.binning import Binning

        cls = getattr(yaw, case["cls"])
        nb = case["bins"]
        nsamp = int(rng.integers(1, 13))
        # bins wider than 2e-6 so the written edges stay distinct
        widths = 10.0 ** rng.uniform(-5.5, 0.3, nb)
        edges = rng.uniform(0, 2) + np.concatenate([[0.0], np.cumsum(widths)])
        binning = Binning(edges, closed=str(rng.choice(["left", "right"])))
        obj = gen.gen_sampled(rng, cls, nb, nsamp, special=case["special"], binning=binning)
        if case["special"]:
            mag = 10.0 ** rng.uniform(-9, 12, nb)
            obj.data[np.isfinite(obj.data)] = (rng.normal(0, 1, nb) * mag)[np.isfinite(obj.data)]
        # the prefix as users write it: plain, with dots, or the name of one of the files themselves; a sibling
        # result whose name is a prefix of this one lives in the same directory
        stem = ["out", "run1a", "nz_z0.5", "nz_data"][case["seed"] % 4]
        prefix = tmp / stem
        read_as = tmp / (stem + ".dat") if case["seed"] % 8 >= 4 and "." not in stem else prefix
        try:
            with np.errstate(all="ignore"):
                sibling = gen.gen_sampled(rng, cls, nb, nsamp, binning=binning)
                sibling.to_files(tmp / stem[:-1])
                obj.to_files(prefix)
            back = cls.from_files(read_as)
        except Exception as e:
            tag = "one-bin" if nb == 1 else "multi-bin"
            bad(f"ascii:raises-{type(e).__name__}:{tag}", dict(error=f"{e}"[:300], samples=nsamp))
            return
        if type(back) is not cls:
            bad("ascii:type-differs", dict(got=type(back).__name__))
        want_edges = field_array(edges)
        if not same(back.binning.edges, want_edges):
            bad("ascii:edges-differ", dict(got=back.binning.edges.tolist(), want=want_edges.tolist(), written=edges.tolist()))
        if back.binning.closed != binning.closed:
            bad("ascii:closed-differs", {})
        want = field_array(obj.data)
        if not same(back.data, want):
            j = int(np.flatnonzero(~((back.data == want) | (np.isnan(back.data) & np.isnan(want))))[0]) if np.shape(back.data) == np.shape(want) else -1
            bad("ascii:data-differ", dict(got=np.asarray(back.data).tolist(), want=want.tolist(), written=obj.data.tolist(), index=j))
        wants = field_array(obj.samples)
        if not same(back.samples, wants):
            bad("ascii:samples-differ", dict(got_shape=np.shape(back.samples), want_shape=wants.shape))
        out.append(result(HELD, cls=f"ascii-{case['cls']}-{'1bin' if nb == 1 else 'nbin'}",
                          counters=dict(ascii_roundtrips=1), sample=dict(case=case, samples=nsamp)))

    def _metadata(self, case, rng, tmp, bad, out):
        from yaw.catalog.patch import Metadata
        from yaw.coordinates import AngularCoordinates, AngularDistances

        vals = dict(
            num_records=int(rng.integers(0, 10**9)),
            sum_weights=float(rng.choice([rng.uniform(0, 1e6), 10.0 ** rng.uniform(-300, 300), 0.1 + 0.2, 1 / 3, 0.0, -0.0,
                                          -rng.uniform(0, 10)])),
            # right ascension in any convention: [0, 2pi), (-pi, pi], or unwrapped beyond one turn
            center=AngularCoordinates([float(rng.choice([rng.uniform(0, 2 * np.pi), rng.uniform(-np.pi, 0), rng.uniform(2 * np.pi, 4 * np.pi),
                                                         0.0, 2 * np.pi, -1e-9])), np.arcsin(rng.uniform(-1, 1))]),
            radius=AngularDistances(float(rng.choice([0.0, 5e-324, rng.uniform(0, np.pi), 10.0 ** rng.uniform(-17, 0)]))),
        )
        meta = Metadata(**vals)
        path = tmp / "meta.yml"
        try:
            meta.to_file(path)
            back = Metadata.from_file(path)
        except Exception as e:
            bad(f"metadata-yaml:raises-{type(e).__name__}", dict(error=str(e)[:300]))
            return
        if not (back.num_records == meta.num_records and type(back.num_records) is int
                and back.sum_weights == meta.sum_weights
                and same(back.center.data, meta.center.data) and same(back.radius.data, meta.radius.data)
                and back.to_dict() == meta.to_dict()):
            bad("metadata-yaml:differs", dict(got=back.to_dict(), want=meta.to_dict()))
        out.append(result(HELD, cls="metadata", counters=dict(metadata_roundtrips=1)))

    def _catalog(self, case, rng, tmp, bad, out):
        import pandas as pd

        from yaw import Catalog

        n = int(rng.integers(20, 400))
        npatch = int(rng.integers(1, 6))
        cols = dict(ra=rng.uniform(0, 360, n), dec=np.rad2deg(np.arcsin(rng.uniform(-1, 1, n))),
                    patch=rng.integers(0, npatch, n))
        cols["patch"][:npatch] = np.arange(npatch)
        kw = dict(ra_name="ra", dec_name="dec", patch_name="patch")
        if rng.random() < 0.6:
            cols["w"] = rng.uniform(0.1, 5, n)
            kw["weight_name"] = "w"
        if rng.random() < 0.6:
            cols["z"] = rng.uniform(0.01, 2, n)
            kw["redshift_name"] = "z"
        if "w" in cols and rng.random() < 0.4:
            # weights of patch 0 sum to exactly zero (+1, -1 pairs): needs given centres (a zero-weight mean has no direction)
            from yaw import AngularCoordinates

            sel = np.flatnonzero(cols["patch"] == 0)
            sel = sel[: 2 * (len(sel) // 2)]
            cols["w"][sel] = np.tile([1.0, -1.0], len(sel) // 2)
            cen = np.array([[np.deg2rad(cols["ra"][cols["patch"] == k].mean()), np.deg2rad(cols["dec"][cols["patch"] == k].mean())]
                            for k in range(npatch)])
            # every object must keep its patch: use the index column to define membership, centres only for metadata
            kw.pop("patch_name")
            cols_xyz = None
            _ = cols_xyz
            from vlib import cats as vcats
            from vlib import gen as vgen

            xyz = vgen.radec_to_xyz(np.deg2rad(cols["ra"]), np.deg2rad(cols["dec"]))
            cen_xyz = vgen.radec_to_xyz(cen[:, 0], cen[:, 1])
            nearest, _m = vcats.nearest_centre(xyz, cen_xyz)
            if len(np.unique(nearest)) == npatch and len(sel) >= 2 and abs(cols["w"][nearest == nearest[sel[0]]].sum()) >= 0:
                kw["patch_centers"] = AngularCoordinates(cen)
            else:
                # the zero-sum patch cannot be defined through centres here: without centres a patch of zero total
                # weight is refused by the library (no mean direction), so give it ordinary weights again
                kw["patch_name"] = "patch"
                cols["w"][sel] = rng.uniform(0.1, 5, len(sel))
        if "patch_centers" not in kw and rng.random() < 0.4:
            # centres given explicitly in the (-pi, pi] convention; membership still from the index column is not
            # possible then, so use the nearest-centre partition of these centres
            from yaw import AngularCoordinates
            from vlib import cats as vcats
            from vlib import gen as vgen

            cen = np.array([[np.deg2rad(cols["ra"][cols["patch"] == k][0]), np.deg2rad(cols["dec"][cols["patch"] == k][0])] for k in range(npatch)])
            cen[:, 0] = np.where(cen[:, 0] > np.pi, cen[:, 0] - 2 * np.pi, cen[:, 0])
            kw.pop("patch_name")
            kw["patch_centers"] = AngularCoordinates(cen)
        cat = Catalog.from_dataframe(tmp / "cat", pd.DataFrame(cols), max_workers=1, **kw)
        back = Catalog(tmp / "cat", max_workers=1)
        for getter in ("get_sum_weights", "get_num_records"):
            ga, gb = np.asarray(getattr(cat, getter)()), np.asarray(getattr(back, getter)())
            if ga.dtype != gb.dtype or not np.array_equal(ga, gb):
                bad(f"catalog-cache:{getter}-differs", dict(created=ga.tolist(), reopened=gb.tolist(), dtypes=[str(ga.dtype), str(gb.dtype)]))
        for pid in (cat if list(back.keys()) == list(cat.keys()) else []):
            ma, mb = cat[pid].meta, back[pid].meta
            if type(ma.sum_weights) is not type(mb.sum_weights) or ma.sum_weights != mb.sum_weights or type(ma.num_records) is not type(mb.num_records):
                bad("catalog-cache:metadata-value-or-type-differs", dict(patch=pid, created=repr(ma.sum_weights), reopened=repr(mb.sum_weights),
                                                                        types=[type(ma.sum_weights).__name__, type(mb.sum_weights).__name__]))
                break
        if list(back.keys()) != list(cat.keys()):
            bad("catalog-cache:keys-differ", dict(got=list(back.keys()), want=list(cat.keys())))
        else:
            for pid in cat:
                a, b = cat[pid], back[pid]
                if a.load_data().tobytes() != b.load_data().tobytes() or a.load_data().dtype != b.load_data().dtype:
                    bad("catalog-cache:data-differ", dict(patch=pid))
                if a.meta.to_dict() != b.meta.to_dict() or not (same(a.meta.center.data, b.meta.center.data) and same(a.meta.radius.data, b.meta.radius.data)):
                    bad("catalog-cache:metadata-differ", dict(patch=pid, got=b.meta.to_dict(), want=a.meta.to_dict(),
                                                              got_center=b.meta.center.data.tolist(), want_center=a.meta.center.data.tolist()))
                if (a.has_weights, a.has_redshifts) != (b.has_weights, b.has_redshifts):
                    bad("catalog-cache:attributes-differ", dict(patch=pid))
        out.append(result(HELD, cls="catalog", counters=dict(catalog_roundtrips=1),
                          sample=dict(case=case, n=n, patches=npatch, columns=sorted(kw))))


CHECK = C11()
