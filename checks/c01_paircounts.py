"""C01 — pair counts are exact and complete for every catalog and configuration.

Reference-model monitor at yaw.autocorrelate / yaw.crosscorrelate: the records
are read back from the catalogs' caches and every cell (scale, bin, patch i,
patch j) of every pair-count container is compared with the brute-force oracle
of oracles/pairs.py (lower/upper bounds for pairs on an interval edge)."""

from __future__ import annotations

import warnings

import numpy as np

from oracles import pairs
from vlib import cats, gen
from vlib.core import HELD, VIOLATED, Check, Scratch, result

GEOMS = ["contiguous", "clusters_far", "dense_vs_sparse", "uneven_extent", "pole", "wrap", "antipodal", "single_patch", "fullsky", "offcentre", "hub"]
ZCLASSES = ["lowz", "mid", "highz", "empty_bins", "one_bin", "patch_outside"]
SCALECLASSES = ["one", "overlap", "many_edges", "weighted", "from_zero", "nested_shared", "descending"]
UNITS = ["kpc", "Mpc", "rad", "deg", "arcmin", "arcsec", "kpc/h", "Mpc/h"]


def resolve_cosmology(name):
    import astropy.cosmology

    if name and name.startswith("flcdm-curved"):
        # curved model: transverse and line-of-sight comoving distances differ
        _, h0, om0, ode0 = name.split(":")
        return astropy.cosmology.LambdaCDM(H0=float(h0), Om0=float(om0), Ode0=float(ode0))
    if name and name.startswith("flcdm"):
        # an unnamed model (cosmology.name is None), different in every case
        _, h0, om0 = name.split(":")
        return astropy.cosmology.FlatLambdaCDM(H0=float(h0), Om0=float(om0))
    return getattr(astropy.cosmology, name or "Planck15")


def gen_case(rng, seed, idx):
    return dict(
        seed=seed,
        geom=GEOMS[idx % len(GEOMS)],
        zcls=ZCLASSES[(idx // len(GEOMS)) % len(ZCLASSES)] if rng.random() < 0.7 else str(rng.choice(ZCLASSES)),
        scls=str(rng.choice(SCALECLASSES)),
        unit=str(rng.choice(UNITS)),
        auto=bool(rng.random() < 0.4),
        closed=str(rng.choice(["left", "right"])),
        weights=str(rng.choice(["none", "first", "second", "both"])),
        wscale=float(rng.choice([1.0, 1.0, 1.0, 1e-12, 1e-9, 1e9])),
        duplicates=bool(rng.random() < 0.15),
        randoms=str(rng.choice(["unk", "ref", "both"])),
        count_rr=bool(rng.random() < 0.6),
        cosmology=str(rng.choice(["Planck15", "WMAP9", f"flcdm:{rng.uniform(55, 80):.2f}:{rng.uniform(0.2, 0.45):.3f}",
                                  f"flcdm-curved:{rng.uniform(55, 80):.2f}:{rng.uniform(0.2, 0.45):.3f}:{rng.uniform(0.9, 1.2):.3f}"])),
    )


def build_world(case, rng):
    """Generate centres, per-catalog point sets and the configuration
    parameters for a case.  Returns dict with everything JSON-free."""
    geom = case["geom"]
    P = int(rng.integers(2, 7))
    r_ref = np.deg2rad(rng.uniform(0.3, 1.0))
    spacing = r_ref * rng.uniform(1.2, 2.0)
    where = "random"
    radius = {"ref": r_ref, "unk": r_ref, "rand": r_ref}
    theta_max = spacing * rng.uniform(0.3, 1.5)  # largest separation to count
    if geom == "clusters_far":
        r_ref = np.deg2rad(rng.uniform(0.03, 0.1))
        spacing = np.deg2rad(rng.uniform(1.0, 3.0))
        radius = {k: r_ref for k in radius}
        theta_max = spacing * rng.uniform(0.8, 1.6)
    elif geom == "dense_vs_sparse":
        r_ref = np.deg2rad(rng.uniform(0.03, 0.08))
        spacing = np.deg2rad(rng.uniform(0.5, 0.8))
        radius = {"ref": r_ref, "unk": spacing * 0.48, "rand": spacing * 0.48}
        theta_max = spacing * rng.uniform(0.2, 0.6)
    elif geom == "uneven_extent":
        radius = None
    elif geom == "pole":
        where = "pole"
    elif geom == "wrap":
        where = "wrap"
    elif geom == "antipodal":
        P = 2 * int(rng.integers(1, 4))
    elif geom == "single_patch":
        P = 1
    elif geom == "offcentre":
        # prescribed centres far apart, the data of two adjacent patches in one small field on their common
        # border (a deep field inside a wide tiling): patch radii must be measured from the stored centres
        P = 2
        spacing = np.deg2rad(rng.uniform(4.0, 10.0))
    elif geom == "hub":
        # one wide patch with a MIDDLE number surrounded by small fields that are not neighbours of each other
        P = int(rng.integers(4, 7))
    elif geom == "fullsky":
        # very wide, few patches: radii + scale exceed 180 deg
        P = int(rng.integers(2, 4))
        radius = {k: np.deg2rad(rng.uniform(60.0, 89.0)) for k in radius}
        theta_max = np.deg2rad(rng.uniform(20.0, 100.0))
    centres = cats.layout_centres(rng, P if geom != "antipodal" else P // 2, spacing, where)
    if geom == "fullsky":
        c0 = gen.rand_unit(rng, 1)[0]
        centres = np.array([c0, -c0] + ([gen.rand_unit(rng, 1)[0]] if P == 3 else []))
    if geom == "antipodal":
        centres = np.concatenate([centres, -centres])
    if geom == "uneven_extent":
        per = np.deg2rad(10.0 ** rng.uniform(-1.3, 0.0, P))
        per = np.minimum(per, spacing * 0.6)
        radius = {"ref": per, "unk": per[::-1].copy(), "rand": per}
    data_centres = None
    if geom == "hub":
        nsat = P - 1
        R = np.deg2rad(0.8)
        phi = 2 * np.pi * (np.arange(nsat) + rng.uniform(0, 1)) / nsat
        sat = gen.radec_to_xyz(R * np.cos(phi), R * np.sin(phi))  # around (ra, dec) = (0, 0)
        hub_ = np.array([[1.0, 0.0, 0.0]])
        k = P // 2
        local = np.concatenate([sat[:k], hub_, sat[k:]])  # the hub gets a middle patch number
        centres = local @ gen.random_rotation(rng).T
        per = np.full(P, np.deg2rad(0.1))
        per[k] = np.deg2rad(0.38)
        radius = {"ref": per, "unk": per, "rand": per}
        theta_max = np.deg2rad(0.45)
    if geom == "offcentre":
        mid = centres[0] + centres[1]
        mid /= np.linalg.norm(mid)
        r_f = spacing * rng.uniform(0.02, 0.06)
        radius = {k: r_f for k in radius}
        theta_max = r_f * rng.uniform(0.5, 1.5)
        data_centres = np.array([mid, mid])
    return dict(P=P, centres=centres, radius=radius, theta_max=theta_max, spacing=spacing, data_centres=data_centres)


def gen_redshift_setup(case, rng):
    z = case["zcls"]
    if z == "lowz":
        zmin = float(rng.choice([0.002, 0.005, 0.01, 0.03, 0.049]))
        zmax = zmin + float(rng.choice([0.02, 0.05, 0.2]))
        nb = int(rng.integers(1, 5))
    elif z == "highz":
        zmin = float(rng.uniform(1.5, 2.5))
        zmax = float(rng.uniform(3.0, 5.0))
        nb = int(rng.integers(1, 5))
    elif z == "one_bin":
        zmin, zmax, nb = 0.2, 0.9, 1
    else:
        zmin = float(rng.uniform(0.1, 0.4))
        zmax = zmin + float(rng.uniform(0.3, 0.8))
        nb = int(rng.integers(2, 7))
    w = rng.uniform(0.5, 1.5, nb)
    edges = zmin + (zmax - zmin) * np.concatenate([[0.0], np.cumsum(w) / w.sum()])
    edges[-1] = zmax
    return edges


def draw_redshifts(case, rng, edges, n, pid):
    lo, hi = edges[0], edges[-1]
    span = hi - lo
    z = rng.uniform(lo - 0.1 * span, hi + 0.1 * span, n)  # some outside the binning
    z = np.maximum(z, 1e-4)
    # exact edge values
    k = max(1, n // 10)
    z[rng.choice(n, k, replace=False)] = rng.choice(edges, k)
    if case["zcls"] == "empty_bins" and len(edges) > 2:
        b = int(rng.integers(len(edges) - 1))
        inside = (z >= edges[b]) & (z <= edges[b + 1])
        z[inside] = edges[b + 1] + (edges[-1] - edges[b + 1]) * 0.5 if b + 1 < len(edges) - 1 else edges[0] + (edges[b] - edges[0]) * 0.5
    if case["zcls"] == "patch_outside":
        z[pid == 0] = hi + 0.3 * span + rng.uniform(0, 0.1, int((pid == 0).sum()))
    return z


def gen_scales(case, rng, theta_max, edges, cosmo):
    """Scale limits in the case's unit chosen such that the angles at the
    central redshift are fractions of theta_max."""
    s = case["scls"]
    if s == "one":
        lo, hi = [rng.uniform(0.0, 0.3)], [1.0]
    elif s == "overlap":
        lo, hi = [0.05, 0.2, 0.1], [0.6, 1.0, 0.4]
    elif s == "from_zero":
        # a lower limit of exactly 0: coincident points (every object with itself in an autocorrelation,
        # shared positions between catalogs) have separation 0 and are outside (0, theta_max]
        lo, hi = ([0.0], [1.0]) if rng.random() < 0.5 else ([0.0, 0.2], [0.5, 1.0])
    elif s == "nested_shared":
        # nested scales sharing one limit: as many distinct edges as scales
        lo, hi = ([0.05, 0.05], [0.3, 1.0]) if rng.random() < 0.5 else ([0.05, 0.3, 0.05], [1.0, 1.0, 0.3])
    elif s == "descending":
        # contiguous scales listed from large to small
        lo, hi = ([0.5, 0.2, 0.05], [1.0, 0.5, 0.2]) if rng.random() < 0.5 else ([0.3, 0.05], [1.0, 0.3])
    elif s == "many_edges":
        lo, hi = [0.02, 0.1, 0.3, 0.55, 0.15], [0.1, 0.3, 0.55, 1.0, 0.8]
    else:  # weighted
        lo, hi = ([0.1], [1.0]) if rng.random() < 0.5 else ([0.05, 0.3], [0.5, 1.0])
    lo = np.where(np.array(lo) == 0.0, 0.0, np.maximum(np.array(lo) * theta_max, 1e-6))
    hi = np.array(hi) * theta_max
    zref = float((edges[0] + edges[-1]) / 2)
    unit = case["unit"]
    one = pairs.scale_angles([1.0], [1.0], unit, zref, cosmo)[0][0]  # angle of one unit at zref
    rmin, rmax = lo / one, hi / one
    rweight = resolution = None
    if s == "weighted":
        rweight = float(rng.choice([-1.0, 0.5]))
        resolution = int(rng.choice([1, 3, 50]))
    return rmin.tolist(), rmax.tolist(), rweight, resolution


class C01(Check):
    id = "C01"
    level = "exploration"
    rule = (
        "seeded measurement set-ups from the product geometry {contiguous, compact clusters far apart, dense-compact "
        "reference vs sparse-wide unknown/randoms, patches of uneven extent, centre on the pole, field across RA=0, "
        "antipodal groups, single patch, all-sky patches, data far off the prescribed centres} x redshift {zmin 0.002..0.05, 0.1..1, 1.5..5, empty bins, one bin, a patch "
        "outside the binning; edge-valued redshifts; left/right closed} x scales {one, overlapping, >=4 distinct edges, "
        "separation weighting rweight/resolution} x all 8 units x weights {none, first, second, both; magnitudes 1e-12..1e9; exact duplicate positions} x randoms x "
        "auto/cross x count_rr; 20..400 objects per catalog on shared centres. Every cell of dd/dr/rd/rr counts and of "
        "sum_weights1/2 is compared with the brute-force oracle on the records read back from the caches. "
        "non-trivial = every scale has >= 1 certain pair; distinct = case parameters + seed"
        ' Further classes: data far off the prescribed centres, a hub patch with satellites, all-sky patches, scales from exactly 0, nested/descending scale lists, curved and custom cosmologies, data frames with non-default row labels.'
    )
    assumptions = [
        "catalogs share patch centres (created with patch_centers), as the statement requires",
        "pairs within 1e-10 (relative) of an interval edge may be counted either way (oracle lower/upper bounds)",
        "with separation weighting only proportionality is promised: one constant per (pair kind, redshift bin) is "
        "fitted and must agree between kinds to 1e-9",
    ]
    floor_nontrivial = 30
    required_counters = ("cells_compared", "sum_weight_cells_compared", "pairs_in_oracle", "cases_pairs_beyond_radii")
    shards = (12, 16)
    budget = (300, 700)

    def cases(self, tier, seed):
        n = 560 if tier == "quick" else 16000
        rng = np.random.default_rng([seed, 1])
        # stratum where the conversion scale -> angle decides the pruning: physical/comoving units at
        # very low and very high redshift on geometries with well separated or uneven patches
        k = 0
        for rep in range(2 if tier == "quick" else 25):
            for geom in ("clusters_far", "uneven_extent", "dense_vs_sparse"):
                for zcls in ("lowz", "highz"):
                    for unit in ("kpc", "Mpc", "Mpc/h"):
                        k += 1
                        c = gen_case(rng, seed * 7919 + 50000 + k, 0)
                        c.update(geom=geom, zcls=zcls, unit=unit, scls="one" if k % 2 else "overlap", wscale=1.0, duplicates=False)
                        yield c
        for i in range(n):
            c = gen_case(rng, seed * 100003 + i, i)
            if c["scls"] == "from_zero" and not c["auto"]:
                c["duplicates"] = True  # positions shared between the catalogs: separation exactly 0
            yield c

    def setup_worker(self):
        warnings.simplefilter("ignore")

    # ------------------------------------------------------------------
    def execute(self, case):
        import yaw
        from yaw import Configuration

        rng = np.random.default_rng([case["seed"], 101])
        world = build_world(case, rng)
        P, centres = world["P"], world["centres"]
        edges = gen_redshift_setup(case, rng)
        cosmo = resolve_cosmology(case["cosmology"])
        rmin, rmax, rweight, resolution = gen_scales(case, rng, world["theta_max"], edges, cosmo)
        out = []

        def bad(mech, detail):
            out.append(result(VIOLATED, mechanism=mech, detail=dict(case=case, **detail), nontrivial=False))

        # separations beyond pi do not exist: a scale set that exceeds it at some bin centre is rejected by the
        # library (documented ValueError) and is not a case for this property
        zmid_ = (edges[:-1] + edges[1:]) / 2
        if max(pairs.scale_angles(rmin, rmax, case["unit"], z, cosmo)[1].max() for z in zmid_) > 0.95 * np.pi:
            from vlib.core import SKIPPED

            return [result(SKIPPED, cls="rejected-angle>pi", nontrivial=False, counters=dict(rejected_angle_beyond_pi=1))]
        cfg = Configuration.create(rmin=rmin, rmax=rmax, unit=case["unit"], rweight=rweight, resolution=resolution,
                                   edges=edges.tolist(), closed=case["closed"],
                                   cosmology=cosmo if case["cosmology"].startswith("flcdm") else case["cosmology"])
        centre_obj = cats.coords_obj(centres)

        shared = dict(xyz=None)

        def make(tmp, name, kind, with_z, with_w):
            n_each = rng.integers(max(2, 20 // P), max(3, 400 // P) // (3 if kind == "ref" else 1) + 2, P)
            if world.get("data_centres") is not None:
                # off-centre data: a field straddling the border; two fixed points make sure both patches get objects
                xyz, _ = cats.points_around(rng, world["data_centres"], n_each, world["radius"][kind])
                mid, step = world["data_centres"][0], 0.3 * world["radius"][kind] * (centres[0] - centres[1]) / np.linalg.norm(centres[0] - centres[1])
                xyz = np.concatenate([xyz, [mid + step, mid - step]])
            else:
                xyz, _ = cats.points_around(rng, centres, n_each, world["radius"][kind] if world["radius"] else np.deg2rad(0.5))
                # every centre must attract at least one object: add the centre itself (jittered)
                xyz = np.concatenate([xyz, centres + rng.normal(0, 1e-6, centres.shape)])
            xyz /= np.linalg.norm(xyz, axis=1)[:, None]
            ra, dec = gen.xyz_to_radec(xyz)
            pid, _ = cats.nearest_centre(xyz, centres)
            if case.get("duplicates") and len(xyz) > 4:
                # exact duplicates (separation 0, never inside (theta_min, theta_max]) and points shared with
                # the previous catalog
                k = len(xyz) // 5
                xyz[:k] = xyz[k:2 * k]
                if shared["xyz"] is not None:
                    m = min(k, len(shared["xyz"]))
                    xyz[2 * k:2 * k + m] = shared["xyz"][:m]
                shared["xyz"] = xyz.copy()
                ra, dec = gen.xyz_to_radec(xyz)
                pid, _ = cats.nearest_centre(xyz, centres)
            z = draw_redshifts(case, rng, edges, len(ra), pid) if with_z else None
            w = rng.uniform(0.5, 3.0, len(ra)) * case.get("wscale", 1.0) if with_w else None
            return cats.create(tmp / name, cats.table(ra, dec, w=w, z=z), centers=centre_obj)

        wsel = case["weights"]
        warm = None
        if case["cosmology"].startswith("flcdm"):
            # a warm-up measurement with the same binning and scales but a very different (equally unnamed)
            # cosmology runs first in this process: nothing of it may leak into the measurement judged below
            import astropy.cosmology

            warm = cfg.modify(cosmology=astropy.cosmology.FlatLambdaCDM(H0=45.0, Om0=0.6))
        with Scratch("c01") as tmp:
            try:
                if case["auto"]:
                    data = make(tmp, "data", "ref", True, wsel in ("first", "both"))
                    rand = make(tmp, "rand", "rand", True, wsel in ("second", "both"))
                    if warm is not None:
                        yaw.autocorrelate(warm, data, rand, count_rr=False, max_workers=1)
                    cfs = yaw.autocorrelate(cfg, data, rand, count_rr=case["count_rr"], max_workers=1)
                    kinds = {"dd": (data, data, True, True), "dr": (data, rand, False, True)}
                    if case["count_rr"]:
                        kinds["rr"] = (rand, rand, True, True)
                else:
                    ref = make(tmp, "ref", "ref", True, wsel in ("first", "both"))
                    unk = make(tmp, "unk", "unk", bool(rng.random() < 0.5), wsel in ("second", "both"))
                    rr = make(tmp, "rr", "rand", True, bool(rng.random() < 0.3)) if case["randoms"] in ("ref", "both") else None
                    ur = make(tmp, "ur", "rand", False, bool(rng.random() < 0.3)) if case["randoms"] in ("unk", "both") else None
                    if warm is not None:
                        yaw.crosscorrelate(warm, ref, unk, ref_rand=rr, unk_rand=ur, max_workers=1)
                    cfs = yaw.crosscorrelate(cfg, ref, unk, ref_rand=rr, unk_rand=ur, max_workers=1)
                    kinds = {"dd": (ref, unk, False, False)}
                    if ur is not None:
                        kinds["dr"] = (ref, ur, False, False)
                    if rr is not None:
                        kinds["rd"] = (rr, unk, False, False)
                    if rr is not None and ur is not None:
                        kinds["rr"] = (rr, ur, False, False)
            except Exception as e:
                import traceback

                tb = traceback.extract_tb(e.__traceback__)
                site = next((f"{f.name}" for f in reversed(tb) if "/repo/src/yaw" in f.filename), "?")
                bad(f"measurement:raises-{type(e).__name__}:{site}", dict(error=f"{e}"[:300]))
                return out

            if len(cfs) != len(rmin):
                bad("result:wrong-number-of-scales", dict(got=len(cfs), want=len(rmin)))
                return out

            nb = len(edges) - 1
            zmid = (edges[:-1] + edges[1:]) / 2
            th = np.array([pairs.scale_angles(rmin, rmax, case["unit"], z, cosmo) for z in zmid])  # (nb, 2, ns)
            theta_lo, theta_hi = th[:, 0, :].T, th[:, 1, :].T  # (ns, nb)

            counters = dict(cells_compared=0, sum_weight_cells_compared=0, pairs_in_oracle=0)
            radii = None
            every_scale_has_pairs = True
            consts = {}
            for kind, (c1, c2, auto, binned2) in kinds.items():
                r1, r2 = cats.records(c1), cats.records(c2)
                r2 = dict(r2, binned=binned2)
                lower, upper, npairs = pairs.pair_counts(
                    r1, r2, P, edges, case["closed"], theta_lo, theta_hi, auto=auto,
                    rweight=rweight, resolution=resolution)
                counters["pairs_in_oracle"] += int(npairs.sum())
                if kind == "dd" and np.any(npairs.sum(axis=1) == 0):
                    every_scale_has_pairs = False
                wtot = float(np.abs(np.ones(len(r1["ra"])) if r1["w"] is None else r1["w"]).sum()
                             * np.abs(np.ones(len(r2["ra"])) if r2["w"] is None else r2["w"]).sum())
                # sum of weights
                sw1 = pairs.sum_weights(r1, P, edges, case["closed"], True)
                sw2 = pairs.sum_weights(r2, P, edges, case["closed"], binned2)
                for s, cf in enumerate(cfs):
                    nc = getattr(cf, kind)
                    if nc is None:
                        bad(f"{kind}:missing", {})
                        continue
                    arr = nc.counts.get_array()
                    if arr.shape != (nb, P, P):
                        bad(f"{kind}:shape", dict(shape=arr.shape))
                        continue
                    if bool(nc.auto) != auto:
                        bad(f"{kind}:auto-flag", {})
                    lo_s, up_s = lower[s], upper[s]
                    if rweight is not None:
                        # proportionality: one constant per (kind, bin) over all scales/cells
                        for b in range(nb):
                            tot_code = sum(getattr(c, kind).counts.get_array()[b].sum() for c in cfs)
                            tot_or = 0.5 * (lower[:, b].sum() + upper[:, b].sum())
                            if tot_or > 0:
                                consts[(kind, b)] = tot_code / tot_or
                        cvec = np.array([consts.get((kind, b), 0.0) for b in range(nb)])[:, None, None]
                        lo_s, up_s = lo_s * cvec, up_s * cvec
                    # counts are differences of cumulative sums bounded by (total weight 1) x (total weight 2):
                    # rounding residues live on that scale, also in cells whose exact value is 0
                    # (with separation weighting every pair is scaled by a normalised factor <= 1)
                    tol = 1e-9 * np.abs(up_s) + 1e-12 * wtot
                    lost = arr < lo_s - tol
                    extra = arr > up_s + tol
                    counters["cells_compared"] += int(arr.size)
                    if lost.any() or extra.any():
                        which = lost if lost.any() else extra
                        b, i, j = (int(x[0]) for x in np.nonzero(which))
                        if radii is None:
                            cc = c1.get_centers()
                            radii = (c1.get_radii().data, c2.get_radii().data,
                                     np.array([[cc[a].distance(cc[bb]).data[0] for bb in range(P)] for a in range(P)]))
                        cell = "diagonal" if i == j else ("lower-triangle" if (auto and i > j) else "off-diagonal")
                        zeroed = bool(arr[b, i, j] == 0.0 and lo_s[b, i, j] > 0)
                        if lost.any() and zeroed and cell == "off-diagonal":
                            mech = "pairs-lost:patch-pair-not-visited"
                        else:
                            mech = f"counts:{'lost' if lost.any() else 'extra'}:{cell}" + (":weighted" if rweight is not None else "")
                        bad(mech, dict(kind=kind, scale=s, bin=b, cell=[i, j], got=float(arr[b, i, j]),
                                       want=[float(lo_s[b, i, j]), float(up_s[b, i, j])],
                                       centre_dist=float(radii[2][i, j]), radii1=radii[0].tolist(), radii2=radii[1].tolist(),
                                       theta_hi=float(theta_hi[s, b]), n_cells_lost=int(lost.sum()), n_cells_extra=int(extra.sum())))
                    # sum of weights cells
                    got1, got2 = nc.sum_weights.sum_weights1, nc.sum_weights.sum_weights2
                    counters["sum_weight_cells_compared"] += int(got1.size + got2.size)
                    for nm, got, want in (("sum_weights1", got1, sw1), ("sum_weights2", got2, sw2)):
                        if got.shape != want.shape or np.any(np.abs(got - want) > 1e-12 * np.maximum(np.abs(want), 1e-6 * max(float(np.abs(want).max()), 1e-300))):
                            bad(f"{nm}:wrong", dict(kind=kind, scale=s, got=np.asarray(got).tolist(), want=want.tolist()))
                            break
            if rweight is not None and consts:
                for b in range(nb):
                    vals = [v for (k, bb), v in consts.items() if bb == b and v > 0]
                    if len(vals) > 1 and (max(vals) - min(vals)) > 1e-9 * max(vals):
                        bad("weighted:constant-differs-between-kinds", dict(bin=b, constants=vals))

            # pruning relevance: certain pairs in cells of patch pairs farther apart than the radii sum
            first = next(iter(kinds.values()))
            cc = first[0].get_centers()
            r1 = first[0].get_radii().data
            beyond = 0
            if P > 1:
                r1c, r2c = cats.records(first[0]), dict(cats.records(first[1]), binned=first[3])
                lower0, _, _ = pairs.pair_counts(r1c, r2c, P, edges, case["closed"], theta_lo, theta_hi, auto=first[2])
                for i in range(P):
                    for j in range(P):
                        if i != j and cc[i].distance(cc[j]).data[0] > r1[i] + r1[j] and lower0[:, :, i, j].sum() > 0:
                            beyond += 1
            counters["cases_pairs_beyond_radii"] = int(beyond > 0)
            counters["linked_density_pct"] = 0
            out.append(result(
                HELD, cls=f"{case['geom']}/{case['zcls']}/{case['scls']}/{'auto' if case['auto'] else 'cross'}",
                counters=counters, nontrivial=every_scale_has_pairs,
                sample=dict(case=case, P=P, bins=nb, scales=len(rmin), kinds=sorted(kinds),
                            certain_pairs=counters["pairs_in_oracle"])))
        return out


CHECK = C01()
