"""C14 — spherical geometry primitives are accurate everywhere on the sphere.

Reference-model monitor: every public primitive of yaw.coordinates is called
on generated (hostile) coordinate sets and compared with a longdouble/atan2
reference under explicit, conditioning-aware error bounds (DESIGN §4 C14)."""

from __future__ import annotations

import numpy as np

from oracles import sphere
from vlib.core import HELD, VIOLATED, Check, result

CLASSES = [
    "api_sequences",
    "uniform",
    "poles",
    "ra_wrap",
    "tiny_sep",
    "near_antipodal",
    "exact_antipodal",
    "identical",
    "one_to_many",
    "dist_roundtrip",
    "coord_roundtrip",
    "coord_roundtrip_special",
    "from_3d_direct",
    "mean",
]


def _uniform(rng, n):
    ra = rng.uniform(0, 2 * np.pi, n)
    dec = np.arcsin(rng.uniform(-1, 1, n))
    return ra, dec


def _offset(rng, ra, dec, sep):
    """Points at angular distance ~sep from (ra, dec) in a random direction,
    computed in longdouble then rounded (the reference re-measures anyway)."""
    n = len(ra)
    pa = rng.uniform(0, 2 * np.pi, n)
    LD = np.longdouble
    d, r, s, p = (np.asarray(x, dtype=LD) for x in (dec, ra, sep, pa))
    sin_d2 = np.sin(d) * np.cos(s) + np.cos(d) * np.sin(s) * np.cos(p)
    sin_d2 = np.clip(sin_d2, -1, 1)
    dec2 = np.arcsin(sin_d2)
    y = np.sin(p) * np.sin(s) * np.cos(d)
    x = np.cos(s) - np.sin(d) * sin_d2
    ra2 = (r + np.arctan2(y, x)) % (2 * sphere.PI)
    ra2 = np.asarray(ra2, dtype=np.float64)
    ra2[ra2 >= 2 * np.pi] = 0.0
    return ra2, np.asarray(dec2, dtype=np.float64)


def gen_pairs(cls, rng, n):
    if cls == "uniform":
        return (*_uniform(rng, n), *_uniform(rng, n))
    if cls == "poles":
        ra1 = rng.uniform(0, 2 * np.pi, n)
        ra2 = rng.uniform(0, 2 * np.pi, n)
        eps1 = 10.0 ** rng.uniform(-17, -1, n) * rng.choice([0.0, 1.0], n, p=[0.1, 0.9])
        eps2 = 10.0 ** rng.uniform(-17, -1, n) * rng.choice([0.0, 1.0], n, p=[0.1, 0.9])
        sign1 = rng.choice([-1.0, 1.0], n)
        sign2 = np.where(rng.random(n) < 0.7, sign1, -sign1)
        return ra1, sign1 * (np.pi / 2 - eps1), ra2, sign2 * (np.pi / 2 - eps2)
    if cls == "ra_wrap":
        e1 = 10.0 ** rng.uniform(-16, -1, n)
        e2 = 10.0 ** rng.uniform(-16, -1, n)
        ra1 = np.where(rng.random(n) < 0.5, e1, 2 * np.pi - e1)
        ra2 = np.where(rng.random(n) < 0.5, 2 * np.pi - e2, e2)
        ra1[ra1 >= 2 * np.pi] = 0.0
        ra2[ra2 >= 2 * np.pi] = 0.0
        dec1 = np.arcsin(rng.uniform(-1, 1, n))
        dec2 = np.clip(dec1 + rng.normal(0, 0.01, n), -np.pi / 2, np.pi / 2)
        return ra1, dec1, ra2, dec2
    if cls == "tiny_sep":
        ra1, dec1 = _uniform(rng, n)
        sep = 10.0 ** rng.uniform(-15, -3, n)
        ra2, dec2 = _offset(rng, ra1, dec1, sep)
        return ra1, dec1, ra2, dec2
    if cls == "near_antipodal":
        ra1, dec1 = _uniform(rng, n)
        sep = np.pi - 10.0 ** rng.uniform(-15, -3, n)
        ra2, dec2 = _offset(rng, ra1, dec1, sep)
        return ra1, dec1, ra2, dec2
    if cls == "exact_antipodal":
        ra1, dec1 = _uniform(rng, n)
        ra2 = (ra1 + np.pi) % (2 * np.pi)
        return ra1, dec1, ra2, -dec1
    if cls == "identical":
        ra1, dec1 = _uniform(rng, n)
        return ra1, dec1, ra1.copy(), dec1.copy()
    raise ValueError(cls)


def dist_bound(ref):
    c = np.maximum(np.cos(np.asarray(ref, dtype=np.float64) / 2), 2e-8)
    return 2e-15 / c + 1e-15


def from3d_bound(ra, dec):
    """Conditioning of the arccos (RA) / arcsin (Dec) route used by from_3d:
    RA loses accuracy near alpha = 0, pi (error ~ eps/|sin alpha|, capped at
    sqrt(2 eps)), Dec near the poles (error ~ eps/cos delta, same cap); both
    are expressed as a distance on the sphere."""
    ra = np.asarray(ra, dtype=np.float64)
    dec = np.asarray(dec, dtype=np.float64)
    cosd = np.abs(np.cos(dec))
    t_ra = np.minimum(3e-8, 4e-16 / np.maximum(np.abs(np.sin(ra)), 1e-300)) * cosd
    t_dec = np.minimum(3e-8, 4e-16 / np.maximum(cosd, 1e-300))
    return t_ra + t_dec + 1e-15


class C14(Check):
    id = "C14"
    level = "exploration"
    rule = (
        "seeded batches of coordinate pairs / distance arrays / point sets per hostile class "
        "(uniform, poles, RA wrap, tiny separations 1e-15..1e-3, near- and exactly antipodal, "
        "identical, one-to-many broadcasting, chord<->angle round trips, sky<->xyz round trips "
        "incl. -0.0/subnormal/unnormalised vectors, means); a batch is non-trivial when every "
        "primitive it targets returned values for all its elements; distinct = (class, batch seed)"
        ' Further classes: batches of 1..6 vectors, in-place coordinate updates between queries, operands sharing memory, point sets above 2^18, floating-point errors raised as exceptions, total weights of 1e-170..1e160.'
    )
    assumptions = [
        "numpy.longdouble has a 64-bit mantissa on this platform (checked at start)",
        "error bounds scale with the conditioning of the chord/arcsin route: 2e-15/max(cos(d/2),2e-8)+1e-15",
    ]
    floor_nontrivial = 20
    required_counters = ("distance_evals", "dist_roundtrip_evals", "coord_roundtrip_evals", "mean_evals")
    shards = (8, 16)
    budget = (300, 420)

    def cases(self, tier, seed):
        nb, n = (10, 40000) if tier == "quick" else (120, 200000)
        for cls in CLASSES:
            for b in range(nb):
                size = n
                if cls in ("mean",):
                    size = 200 if tier == "quick" else 1000
                yield dict(cls=cls, seed=seed * 1000003 + b, n=size)

    def setup_worker(self):
        assert np.finfo(np.longdouble).nmant >= 63, "longdouble is not extended precision"

    # ------------------------------------------------------------------
    def execute(self, case):
        from yaw.coordinates import AngularCoordinates, AngularDistances

        cls = case["cls"]
        n = case["n"]
        rng = np.random.default_rng([case["seed"], CLASSES.index(cls)])
        out = []

        def bad(mech, detail):
            out.append(result(VIOLATED, mechanism=mech, detail=detail, cls=cls))

        counters = {}

        if cls in ("uniform", "poles", "ra_wrap", "tiny_sep", "near_antipodal",
                   "exact_antipodal", "identical"):
            ra1, dec1, ra2, dec2 = gen_pairs(cls, rng, n)
            A = AngularCoordinates(np.column_stack([ra1, dec1]))
            B = AngularCoordinates(np.column_stack([ra2, dec2]))
            ref = sphere.separation(ra1, dec1, ra2, dec2)
            try:
                got = A.distance(B).data
                raised = np.zeros(n, dtype=bool)
            except Exception:
                # locate the offending pairs one by one
                got = np.full(n, np.nan)
                raised = np.zeros(n, dtype=bool)
                first = None
                for i in range(n):
                    try:
                        got[i] = A[i].distance(B[i]).data[0]
                    except Exception as err:  # noqa: PERF203
                        raised[i] = True
                        if first is None:
                            first = (i, f"{type(err).__name__}: {err}")
                i = first[0]
                near_anti = bool(np.all(np.asarray(ref[raised], dtype=float) > np.pi - 1e-6))
                mech = "distance:raises-antipodal" if near_anti else "distance:raises"
                bad(mech, dict(n_raising=int(raised.sum()), of=n, error=first[1],
                               pair=[ra1[i], dec1[i], ra2[i], dec2[i]], ref=float(ref[i])))
            ok = ~raised
            err = np.abs(np.asarray(got[ok], dtype=np.longdouble) - ref[ok]).astype(float)
            bound = dist_bound(ref[ok])
            counters["distance_evals"] = int(ok.sum())
            counters["distance_raised"] = int(raised.sum())
            if np.any(~(err <= bound)):
                j = int(np.nanargmax(np.where(np.isnan(err), np.inf, err / bound)))
                idx = np.flatnonzero(ok)[j]
                bad("distance:inaccurate", dict(
                    pair=[ra1[idx], dec1[idx], ra2[idx], dec2[idx]], got=float(got[idx]),
                    ref=float(ref[idx]), err=float(err[j]), bound=float(bound[j])))
            if np.any(got[ok] < 0) or np.any(got[ok] > np.pi + 1e-15):
                bad("distance:out-of-range", dict(min=float(got[ok].min()), max=float(got[ok].max())))
            # symmetry
            try:
                back = B.distance(A).data
                if not np.array_equal(back[ok], got[ok]):
                    bad("distance:asymmetric", dict(maxdiff=float(np.nanmax(np.abs(back[ok] - got[ok])))))
            except Exception:
                pass  # already reported above
            counters["max_err_over_bound_e3"] = 0
            out.append(result(HELD, cls=cls, counters=counters,
                              sample=dict(cls=cls, n=n, first_pair=[ra1[0], dec1[0], ra2[0], dec2[0]],
                                          max_err=float(err.max()) if len(err) else None)))
            return out

        if cls == "api_sequences":
            # small batches (1..6 vectors), objects whose coordinates are updated in place between two queries,
            # and operands that are views of one array
            evals = 0
            for m in (1, 2, 3, 4, 5, 6):
                ra, dec = _uniform(rng, m)
                C = AngularCoordinates(np.column_stack([ra, dec]))
                xyz = C.to_3d()
                ref_xyz = sphere.to_xyz(ra, dec)
                if xyz.shape != (m, 3) or np.abs(xyz - ref_xyz).astype(float).max() > 3e-16:
                    bad("to_3d:small-batch", dict(m=m, shape=xyz.shape))
                    continue
                back = AngularCoordinates.from_3d(xyz)
                one_by_one = np.concatenate([AngularCoordinates.from_3d(v).data for v in xyz])
                evals += 2 * m
                if back.data.shape != (m, 2) or not np.array_equal(back.data, one_by_one):
                    bad("from_3d:batch-differs-from-single-vectors", dict(m=m, batch=back.data.tolist(), single=one_by_one.tolist()))
                sep = sphere.separation(ra, dec, back.ra, back.dec).astype(float) if back.data.shape == (m, 2) else np.array([np.inf])
                if np.any(sep > from3d_bound(ra, dec)):
                    bad("from_3d:not-inverse", dict(tag=f"batch{m}", ra=ra.tolist(), dec=dec.tolist(), back=back.data.tolist()))
            for _ in range(20):
                m = int(rng.integers(2, 50))
                ra, dec = _uniform(rng, m)
                C = AngularCoordinates(np.column_stack([ra, dec]))
                D = AngularCoordinates(np.column_stack(_uniform(rng, 1)))
                C.to_3d(), C.distance(D), C.mean()  # first queries
                ra2, dec2 = _uniform(rng, m)
                C.data[:, 0], C.data[:, 1] = ra2, dec2  # the coordinates are updated in place
                evals += 3 * m
                if np.abs(C.to_3d() - sphere.to_xyz(ra2, dec2)).astype(float).max() > 3e-16:
                    bad("to_3d:stale-after-in-place-update", dict(m=m))
                ref = sphere.separation(ra2, dec2, D.ra[0], D.dec[0])
                if np.any(np.abs(np.asarray(C.distance(D).data, dtype=np.longdouble) - ref).astype(float) > dist_bound(ref)):
                    bad("distance:stale-after-in-place-update", dict(m=m))
                refv, norm = sphere.mean_direction(ra2, dec2, None)
                if float(norm) > 1e-2:
                    got = C.mean()
                    # conditioning: the direction of a short mean vector amplifies rounding by 1/|mean|
                    if float(sphere.separation_xyz(sphere.to_xyz(got.ra, got.dec)[0], refv)) > 1e-14 + 4e-15 / float(norm) + float(from3d_bound(got.ra[:1], got.dec[:1])[0]):
                        bad("mean:stale-after-in-place-update", dict(m=m, norm=float(norm), sep=float(sphere.separation_xyz(sphere.to_xyz(got.ra, got.dec)[0], refv)), got=got.data.tolist(), ra=ra2.tolist(), dec=dec2.tolist()))
                # operands that share memory: consecutive separations along a track, a set against its reverse
                ref = sphere.separation(ra2[:-1], dec2[:-1], ra2[1:], dec2[1:])
                got = C[:-1].distance(C[1:]).data
                if got.shape != (m - 1,) or np.any(np.abs(np.asarray(got, dtype=np.longdouble) - ref).astype(float) > dist_bound(ref)):
                    bad("distance:views-of-one-array", dict(m=m, how="consecutive"))
                ref = sphere.separation(ra2, dec2, ra2[::-1], dec2[::-1])
                got = C.distance(C[::-1]).data
                if got.shape != (m,) or np.any(np.abs(np.asarray(got, dtype=np.longdouble) - ref).astype(float) > dist_bound(ref)):
                    bad("distance:views-of-one-array", dict(m=m, how="reversed"))
                same = C.distance(C).data
                if np.any(same != 0.0):
                    bad("distance:self-not-zero", dict(m=m))
            # a host application that turns floating-point errors into exceptions (np.seterr(all="raise")):
            # valid inputs, the poles included, still convert
            ra, dec = _uniform(rng, 50)
            dec[:6] = [np.pi / 2, -np.pi / 2, np.pi / 2, 0.0, -np.pi / 2, 1e-300]
            ra[:3] = [0.0, 1.0, 6.0]
            C = AngularCoordinates(np.column_stack([ra, dec]))
            try:
                with np.errstate(divide="raise", invalid="raise", over="raise"):  # underflow to zero is harmless
                    vec = np.array(C.to_3d())  # own copy: the harness modifies it
                    vec[:6, :2] = np.where(np.abs(dec[:6, None]) == np.pi / 2, 0.0, vec[:6, :2])  # exact poles: x = y = 0
                    back = AngularCoordinates.from_3d(vec)
                    C.distance(AngularCoordinates([[0.3, np.pi / 2]]))
                    AngularCoordinates(np.column_stack([ra[3:], dec[3:]])).mean()
                    AngularCoordinates([[0.2, np.pi / 2], [3.0, np.pi / 2 - 1e-9]]).mean()
                evals += 50
                if np.any(sphere.separation(ra, dec, back.ra, back.dec).astype(float) > from3d_bound(ra, dec)):
                    bad("from_3d:not-inverse", dict(tag="errstate-raise"))
            except FloatingPointError as e:
                bad("floating-point-error-on-valid-input", dict(error=str(e)[:200]))
            # spherical mean with weights of extreme magnitude: only their ratios matter
            for scale in (1e-170, 1e-100, 1e100, 1e160):
                m = int(rng.integers(2, 40))
                ra, dec = _uniform(rng, m)
                w = rng.uniform(0.5, 2.0, m)
                refv, norm = sphere.mean_direction(ra, dec, w)
                if float(norm) < 1e-2:
                    continue
                got = AngularCoordinates(np.column_stack([ra, dec])).mean(w * scale)
                evals += m
                if not np.all(np.isfinite(got.data)) or float(sphere.separation_xyz(sphere.to_xyz(got.ra, got.dec)[0], refv)) > 1e-14 + 4e-15 / float(norm) + float(from3d_bound(got.ra[:1], got.dec[:1])[0]):
                    bad("mean:depends-on-weight-scale", dict(scale=scale, got=got.data.tolist(), m=m))
            out.append(result(HELD, cls=cls, counters=dict(coord_roundtrip_evals=evals), sample=dict(cls=cls)))
            return out

        if cls == "one_to_many":
            ra1, dec1 = _uniform(rng, n)
            c = _uniform(rng, 1)
            A = AngularCoordinates(np.column_stack([ra1, dec1]))
            C = AngularCoordinates([[c[0][0], c[1][0]]])
            ref = sphere.separation(ra1, dec1, c[0][0], c[1][0])
            got = A.distance(C).data
            got2 = C.distance(A).data
            err = np.abs(np.asarray(got, dtype=np.longdouble) - ref).astype(float)
            bound = dist_bound(ref)
            if got.shape != (n,) or got2.shape != (n,):
                bad("distance:broadcast-shape", dict(shape=got.shape, shape2=got2.shape))
            elif np.any(err > bound) or not np.array_equal(got, got2):
                bad("distance:inaccurate", dict(max_err=float(err.max()), broadcast=True))
            # max / min
            mx = A.distance(C).max().data
            if mx.shape != (1,) or mx[0] != got.max():
                bad("distances:max", dict(got=mx.tolist(), want=float(got.max())))
            out.append(result(HELD, cls=cls, counters=dict(distance_evals=n),
                              sample=dict(cls=cls, n=n, centre=[c[0][0], c[1][0]])))
            return out

        if cls == "dist_roundtrip":
            d = np.concatenate([
                rng.uniform(0, np.pi, n // 2),
                10.0 ** rng.uniform(-300, 0, n // 8),
                np.pi - 10.0 ** rng.uniform(-16, 0, n // 8),
                np.array([0.0, np.pi, np.pi / 2, np.nextafter(np.pi, 0), 5e-324, 1e-162]),
            ])
            d = np.clip(d, 0, np.pi)
            chord = AngularDistances(d).to_3d()
            back = AngularDistances.from_3d(chord).data
            ref_chord = (2 * np.sin(np.asarray(d, dtype=np.longdouble) / 2))
            e_ch = np.abs(chord - ref_chord).astype(float)
            if np.any(e_ch > 4.5e-16 * np.maximum(np.asarray(ref_chord, dtype=float), 1e-300) + 5e-324):
                j = int(np.argmax(e_ch))
                bad("chord:inaccurate", dict(d=d[j], got=chord[j], ref=float(ref_chord[j])))
            err = np.abs(back - d)
            bound = 1e-15 / np.maximum(np.cos(d / 2), 2e-8) + 4e-16 * d
            if np.any(err > bound):
                j = int(np.argmax(err / bound))
                bad("chord-angle:not-inverse", dict(d=d[j], back=back[j], err=err[j], bound=bound[j]))
            # monotone
            ds = np.sort(d)
            ch = AngularDistances(ds).to_3d()
            if np.any(np.diff(ch) < 0):
                j = int(np.argmin(np.diff(ch)))
                bad("chord:not-monotone", dict(d=[ds[j], ds[j + 1]], chord=[ch[j], ch[j + 1]]))
            cs = np.sort(np.concatenate([rng.uniform(0, 2, n // 2), 2 - 10.0 ** rng.uniform(-16, 0, n // 4),
                                          10.0 ** rng.uniform(-300, 0, n // 4), [0.0, 2.0]]))
            cs = np.clip(cs, 0, 2)
            an = AngularDistances.from_3d(cs).data
            if np.any(np.diff(an) < 0):
                j = int(np.argmin(np.diff(an)))
                bad("angle:not-monotone", dict(chord=[cs[j], cs[j + 1]], angle=[an[j], an[j + 1]]))
            ref_an = 2 * np.arcsin(np.asarray(cs, dtype=np.longdouble) / 2)
            e_an = np.abs(an - ref_an).astype(float)
            b_an = 1e-15 / np.maximum(np.cos(np.asarray(ref_an, dtype=float) / 2), 2e-8) + 4e-16 * np.asarray(ref_an, dtype=float)
            if np.any(e_an > b_an):
                j = int(np.argmax(e_an / b_an))
                bad("angle:inaccurate", dict(chord=cs[j], got=an[j], ref=float(ref_an[j])))
            ch2 = AngularDistances(an).to_3d()
            if np.any(np.abs(ch2 - cs) > 1e-15):
                j = int(np.argmax(np.abs(ch2 - cs)))
                bad("angle-chord:not-inverse", dict(chord=cs[j], back=ch2[j]))
            # chord > 2 must raise, exactly 2 must not
            try:
                AngularDistances.from_3d(np.array([2.0]))
            except Exception as e:
                bad("angle:raises-at-2", dict(error=repr(e)))
            try:
                AngularDistances.from_3d(np.array([2.1]))
                bad("angle:accepts-chord>2", {})
            except ValueError:
                pass
            out.append(result(HELD, cls=cls, counters=dict(dist_roundtrip_evals=len(d) + len(cs)),
                              sample=dict(cls=cls, n=len(d) + len(cs), first=[d[0], float(chord[0]), float(back[0])])))
            return out

        if cls in ("coord_roundtrip", "coord_roundtrip_special"):
            if cls == "coord_roundtrip":
                ra, dec = _uniform(rng, n)
                k = n // 4
                # RA near 0 / pi / 2pi, dec near poles
                e = 10.0 ** rng.uniform(-12, -1, k)
                ra[:k] = np.where(rng.random(k) < 0.5, e, np.pi + e * rng.choice([-1, 1], k))
                ra[k:2 * k] = 2 * np.pi - 10.0 ** rng.uniform(-12, -1, k)
                dec[2 * k:3 * k] = rng.choice([-1, 1], k) * (np.pi / 2 - 10.0 ** rng.uniform(-12, -1, k))
                ra[ra >= 2 * np.pi] = 0.0
            else:
                specials = np.array([0.0, np.pi / 2, np.pi, 3 * np.pi / 2, np.nextafter(2 * np.pi, 0),
                                     5e-324, 1e-300, 1e-17, np.pi - 1e-9, np.pi + 1e-9])
                sdec = np.array([0.0, -0.0, np.pi / 2, -np.pi / 2, 1e-300, -1e-300, 1.0, -1.0,
                                 np.nextafter(np.pi / 2, 0)])
                ra, dec = (x.ravel() for x in np.meshgrid(specials, sdec))
            C = AngularCoordinates(np.column_stack([ra, dec]))
            xyz = C.to_3d()
            ref_xyz = sphere.to_xyz(ra, dec)
            if xyz.shape != (len(ra), 3):
                bad("to_3d:shape", dict(shape=xyz.shape))
                return out
            e_xyz = np.abs(xyz - ref_xyz).astype(float).max()
            if e_xyz > 3e-16:
                bad("to_3d:inaccurate", dict(max_err=float(e_xyz)))
            norm = np.sqrt((np.asarray(xyz, dtype=np.longdouble) ** 2).sum(axis=1))
            if np.any(np.abs(norm - 1) > 4e-16):
                bad("to_3d:not-unit", dict(max_dev=float(np.abs(norm - 1).max())))

            def check_back(vec, tag):
                back = AngularCoordinates.from_3d(vec)
                bra, bdec = back.ra, back.dec
                if np.any(~np.isfinite(bra)) or np.any(~np.isfinite(bdec)):
                    j = int(np.flatnonzero(~(np.isfinite(bra) & np.isfinite(bdec)))[0])
                    bad("from_3d:non-finite", dict(tag=tag, ra=ra[j], dec=dec[j], back=[bra[j], bdec[j]]))
                    return
                if np.any(bra < 0) or np.any(bra >= 2 * np.pi):
                    j = int(np.flatnonzero((bra < 0) | (bra >= 2 * np.pi))[0])
                    bad("from_3d:ra-out-of-range", dict(tag=tag, ra=ra[j], dec=dec[j], back_ra=bra[j]))
                if np.any(np.abs(bdec) > np.pi / 2):
                    bad("from_3d:dec-out-of-range", dict(tag=tag))
                sep = sphere.separation(ra, dec, bra, bdec).astype(float)
                bound = from3d_bound(ra, dec)
                if np.any(sep > bound):
                    j = int(np.argmax(sep / bound))
                    bad("from_3d:not-inverse", dict(tag=tag, ra=ra[j], dec=dec[j], back=[bra[j], bdec[j]],
                                                   sep=sep[j], bound=bound[j]))

            check_back(xyz, "unit")
            scale = 10.0 ** rng.uniform(-100, 100, len(ra))
            check_back(xyz * scale[:, None], "scaled")
            # single vector / list input
            one = AngularCoordinates.from_3d(xyz[0])
            if one.data.shape != (1, 2):
                bad("from_3d:single-shape", dict(shape=one.data.shape))
            out.append(result(HELD, cls=cls, counters=dict(coord_roundtrip_evals=2 * len(ra)),
                              sample=dict(cls=cls, n=len(ra), first=[ra[0], dec[0]])))
            return out

        if cls == "from_3d_direct":
            # hand-made vectors with exact zeros, negative zeros, subnormals and any norm;
            # reference: ra = atan2(y, x) mod 2pi, dec = atan2(z, hypot(x, y)) in longdouble
            vals = np.array([0.0, -0.0, 1.0, -1.0, 5e-324, -5e-324, 1e-300, -1e-300, 0.5, -0.5, 3.0, 1e-17, -1e-17])
            grid = np.array(np.meshgrid(vals, vals, vals)).reshape(3, -1).T
            rnd = rng.normal(size=(n // 20, 3)) * 10.0 ** rng.uniform(-3, 3, (n // 20, 1))
            zero_one = rnd.copy()
            zero_one[np.arange(len(rnd)), rng.integers(0, 3, len(rnd))] = rng.choice([0.0, -0.0], len(rnd))
            vec = np.concatenate([grid, rnd, zero_one])
            norm = np.sqrt((vec.astype(np.longdouble) ** 2).sum(axis=1))
            vec = vec[np.asarray(norm, dtype=float) > 1e-150]  # the zero vector has no direction
            got = AngularCoordinates.from_3d(vec)
            v = vec.astype(np.longdouble)
            ref_ra = np.arctan2(v[:, 1], v[:, 0]) % (2 * sphere.PI)
            ref_dec = np.arctan2(v[:, 2], np.sqrt(v[:, 0] ** 2 + v[:, 1] ** 2))
            ok_fin = np.isfinite(got.ra) & np.isfinite(got.dec)
            if not ok_fin.all():
                j = int(np.flatnonzero(~ok_fin)[0])
                bad("from_3d:non-finite", dict(vec=vec[j].tolist(), got=got.data[j].tolist()))
            if np.any(got.ra < 0) or np.any(got.ra >= 2 * np.pi):
                j = int(np.flatnonzero((got.ra < 0) | (got.ra >= 2 * np.pi))[0])
                bad("from_3d:ra-out-of-range", dict(vec=vec[j].tolist(), ra=got.ra[j]))
            sep = sphere.separation(ref_ra, ref_dec, got.ra, got.dec).astype(float)
            bound = from3d_bound(np.asarray(ref_ra, dtype=float), np.asarray(ref_dec, dtype=float))
            worst = np.where(ok_fin, sep / bound, 0)
            if np.any(worst > 1):
                j = int(np.argmax(worst))
                bad("from_3d:wrong-direction", dict(vec=vec[j].tolist(), got=got.data[j].tolist(),
                                                    want=[float(ref_ra[j]), float(ref_dec[j])], sep=sep[j], bound=bound[j]))
            out.append(result(HELD, cls=cls, counters=dict(coord_roundtrip_evals=len(vec), from3d_direct_evals=len(vec)),
                              sample=dict(cls=cls, n=len(vec), first=vec[0].tolist())))
            return out

        if cls == "mean":
            n_sets = 40
            evals = 0
            for s in range(n_sets):
                m = int(rng.integers(1, n + 1))
                kind = s % 5
                large = s in (6, 13, 27)  # more points than any internal block size, sorted along the array
                if large:
                    m = int(rng.choice([2**16 + 1, 70001, 2**18 + 1, 300007]))
                    kind = int(rng.choice([1, 3]))
                if kind == 0:
                    ra, dec = _uniform(rng, m)
                elif kind == 1:  # cap around a random centre
                    c = _uniform(rng, 1)
                    ra, dec = _offset(rng, np.full(m, c[0][0]), np.full(m, c[1][0]),
                                      np.abs(rng.normal(0, 10.0 ** rng.uniform(-8, -0.3), m)))
                elif kind == 2:  # around the pole
                    ra = rng.uniform(0, 2 * np.pi, m)
                    dec = rng.choice([-1, 1]) * (np.pi / 2 - np.abs(rng.normal(0, 10.0 ** rng.uniform(-8, -1), m)))
                elif kind == 3:  # across RA=0
                    ra = rng.normal(0, 10.0 ** rng.uniform(-6, -1), m) % (2 * np.pi)
                    dec = rng.normal(0, 0.1, m).clip(-1.5, 1.5)
                else:  # single point or duplicates
                    c = _uniform(rng, 1)
                    ra, dec = np.full(m, c[0][0]), np.full(m, c[1][0])
                w = None if s % 2 == 0 else rng.uniform(0.1, 10, m)
                if large:
                    o = np.argsort(ra)
                    ra, dec = ra[o], dec[o]
                    if w is not None:
                        w = np.sort(w)  # weight grows along the array
                if s % 3 == 0:
                    # right ascensions given outside [0, 2pi) (valid input): the mean must still be canonical
                    ra = ra + rng.choice([-2 * np.pi, 2 * np.pi, -4 * np.pi], m)
                if s % 7 == 0 and not large:
                    m = 1
                    ra, dec = ra[:1], dec[:1]
                    w = None if w is None else w[:1]
                refv, norm = sphere.mean_direction(ra, dec, w)
                if float(norm) < 1e-3:
                    continue
                C = AngularCoordinates(np.column_stack([ra, dec]))
                got = C.mean(w)
                evals += 1
                if got.data.shape != (1, 2) or not np.all(np.isfinite(got.data)):
                    bad("mean:shape-or-nan", dict(shape=got.data.shape, m=m, kind=kind))
                    continue
                gv = sphere.to_xyz(got.ra, got.dec)[0]
                sep = float(sphere.separation_xyz(gv, refv))
                # plus the rounding of a plain (not pairwise) sum over m vectors: <= m * eps / 2 in the worst case
                bound = 1e-14 + 6e-17 * m + float(from3d_bound(got.ra[:1], got.dec[:1])[0])
                if sep > bound:
                    bad("mean:inaccurate", dict(m=m, kind=kind, weighted=w is not None, sep=sep,
                                                bound=bound, got=got.data.tolist(), norm=float(norm)))
                if not (0 <= got.ra[0] < 2 * np.pi):
                    bad("mean:ra-out-of-range", dict(ra=got.ra[0]))
            out.append(result(HELD, cls=cls, counters=dict(mean_evals=evals),
                              sample=dict(cls=cls, sets=n_sets, max_points=n)))
            return out

        raise ValueError(cls)


CHECK = C14()
