"""C03 — jackknife sample k is the statistic with patch k left out; the
covariance is the delete-one jackknife covariance of exactly these samples.

Reference-model monitor with a deletion oracle (oracles/jack.py): array level
on generated containers, end-to-end by re-running the real measurement on
catalogs rebuilt without patch k, and histograms recounted without patch k."""

from __future__ import annotations

import itertools
import warnings

import numpy as np

from engines import contracts
from oracles import jack
from oracles.binrule import bin_members
from vlib import cats, gen
from vlib.core import case_bits, HELD, VIOLATED, Check, Scratch, result

SUBSETS = [list(c) for r in range(1, 4) for c in itertools.combinations(("dr", "rd", "rr"), r)
           if not ("rr" in c and "dr" not in c)]


def close_abs(got, want, scale, rel=1e-12):
    """|got-want| <= rel*scale (+ same NaN/inf pattern)."""
    got, want = np.asarray(got, dtype=float), np.asarray(want, dtype=float)
    if got.shape != want.shape:
        return False
    with np.errstate(all="ignore"):
        ok = np.abs(got - want) <= rel * np.maximum(scale, 1e-300)
    same_special = (np.isnan(got) & np.isnan(want)) | (np.isinf(got) & (got == want))
    return bool(np.all(ok | same_special))


def check_counts_container(nc, bad, counters):
    """Numerators and denominators of a NormalisedCounts against deletion."""
    arr = nc.counts.get_array()
    auto = bool(nc.auto)
    sw1, sw2 = nc.sum_weights.sum_weights1, nc.sum_weights.sum_weights2
    sc = nc.counts.sample_patch_sum()
    sn = nc.sum_weights.sample_patch_sum()
    sr = nc.sample_patch_sum()
    full_c = np.abs(arr).reshape(arr.shape[0], -1).sum(axis=1)
    tot_c, loo_c = jack.counts_total_fast(arr), jack.loo_counts(arr)
    tot_n, loo_n = jack.norm_total(sw1, sw2, auto), jack.loo_norm(sw1, sw2, auto)
    full_n = np.abs(tot_n)
    counters["sample_rows_compared"] = counters.get("sample_rows_compared", 0) + 3 * loo_c.shape[0]
    if not close_abs(sc.data, tot_c, full_c):
        bad("counts:total-wrong", dict(got=sc.data.tolist(), want=tot_c.tolist()))
    if not close_abs(sc.samples, loo_c, full_c[None, :]):
        k = int(np.argmax(np.abs(sc.samples - loo_c).max(axis=1)))
        bad("counts:sample-not-leave-one-out", dict(k=k, got=sc.samples[k].tolist(), want=loo_c[k].tolist()))
    if not close_abs(sn.data, tot_n, full_n):
        bad("sum_weights:total-wrong", dict(got=sn.data.tolist(), want=tot_n.tolist(), auto=auto))
    if not close_abs(sn.samples, loo_n, full_n[None, :]):
        k = int(np.argmax(np.abs(sn.samples - loo_n).max(axis=1)))
        bad("sum_weights:sample-not-leave-one-out", dict(k=k, got=sn.samples[k].tolist(), want=loo_n[k].tolist(), auto=auto))
    # ratio where the denominator is well conditioned
    with np.errstate(all="ignore"):
        want_r = loo_c / loo_n
        good = np.abs(loo_n) > 1e-9 * full_n[None, :]
        scale = np.abs(want_r) + full_c[None, :] / np.abs(loo_n)
    counters["illconditioned_skipped"] = counters.get("illconditioned_skipped", 0) + int((~good).sum())
    if good.any() and not close_abs(sr.samples[good], want_r[good], scale[good], rel=1e-9):
        bad("normalised:sample-ratio-wrong", dict(auto=auto))
    with np.errstate(all="ignore"):
        want_d = tot_c / tot_n
    goodd = np.abs(tot_n) > 0
    if goodd.any() and not close_abs(sr.data[goodd], want_d[goodd], np.abs(want_d[goodd]) + 1e-300, rel=1e-9):
        bad("normalised:total-ratio-wrong", dict(auto=auto))
    return dict(tot=want_d, loo=want_r, good=good, loo_n=loo_n, full_n=full_n)


def check_covariance(sd, bad, tag, counters):
    samples = np.asarray(sd.samples, dtype=float)
    with np.errstate(all="ignore"):
        cov = sd.covariance
        err = sd.error
    counters["covariances_compared"] = counters.get("covariances_compared", 0) + 1
    n, m = samples.shape
    if cov.shape != (m, m):
        bad(f"{tag}:covariance-shape", dict(shape=cov.shape))
        return
    if n == 1:
        if not np.all(np.isnan(cov)):
            bad(f"{tag}:covariance-one-sample-not-nan", {})
        return
    finite_cols = np.all(np.isfinite(samples), axis=0)
    # the error is the root of the reported covariance's diagonal everywhere, also where samples are not finite
    with np.errstate(all="ignore"):
        root = np.sqrt(np.diag(cov))
    if err.shape != root.shape or not np.array_equal(np.isnan(err), np.isnan(root)) or not np.array_equal(np.isinf(err), np.isinf(root)):
        bad(f"{tag}:error-not-sqrt-diag:non-finite-pattern", dict(error=np.asarray(err).tolist(), sqrt_diag=root.tolist()))
    if not finite_cols.any():
        return
    want = jack.jackknife_cov(samples[:, finite_cols])
    got = cov[np.ix_(finite_cols, finite_cols)]
    scale = np.sqrt(np.outer(np.diag(want), np.diag(want))) + 1e-300
    mean_sq = (samples[:, finite_cols] ** 2).mean(axis=0)
    scale = scale + 1e-4 * np.sqrt(np.outer(mean_sq, mean_sq))  # rounding of the mean subtraction
    if not close_abs(got, want, scale, rel=1e-9):
        bad(f"{tag}:covariance-not-jackknife", dict(got=got.tolist(), want=want.tolist()))
        return
    if not np.array_equal(got, got.T):
        if not close_abs(got, got.T, scale, rel=1e-13):
            bad(f"{tag}:covariance-not-symmetric", {})
    ev = np.linalg.eigvalsh((got + got.T) / 2)
    if ev.min() < -1e-12 * max(np.trace(got), 1e-300) - 1e-300:
        bad(f"{tag}:covariance-not-psd", dict(min_eig=float(ev.min()), trace=float(np.trace(got))))
    with np.errstate(all="ignore"):
        want_err = np.sqrt(np.diag(got))  # the root of the *reported* covariance's diagonal
    if not close_abs(err[finite_cols], want_err, want_err + 1e-300, rel=1e-12):
        bad(f"{tag}:error-not-sqrt-diag", dict(got=err.tolist(), want=want_err.tolist()))


class C03(Check):
    id = "C03"
    level = "exploration"
    rule = (
        "array level: generated CorrFunc containers (bins 1..8, patches 2..12, auto/cross, sparse/zero rows and columns, "
        "asymmetric cross counts, every subset of dr/rd/rr, weight sums of either sign in half of the cases) -> every sample row of counts, normalisation, normalised "
        "ratio, CorrFunc.sample(), RedshiftData.from_corrfuncs compared with the value recomputed after deleting patch k "
        "(numerator and denominator separately, ratios where well conditioned), covariance against the textbook double "
        "loop, symmetry, eigenvalues, error; end-to-end: a real measurement versus the same measurement on catalogs "
        "rebuilt without patch k; histograms: HistData.from_catalog versus a recount without patch k. "
        "non-trivial = >= 2 patches and at least one well-conditioned sample row compared; distinct = case parameters"
        ' Histograms: weights spanning 15 decades, a patch without any object inside the binning; samples compared directly with the recount to the rounding of a sum over the remaining patches.'
    )
    assumptions = [
        "ratios are compared only where the leave-one-out denominator exceeds 1e-9 of the full-sample value (DESIGN §3.2)",
        "end-to-end runs use pruning-safe geometry (angular scales, shared footprint)",
    ]
    floor_nontrivial = 30
    required_counters = ("sample_rows_compared", "covariances_compared", "e2e_samples_compared", "hist_samples_compared")
    shards = (12, 16)
    budget = (300, 600)

    def cases(self, tier, seed):
        q = tier == "quick"
        n = 0
        for rep in range(60 if q else 2500):
            for members in SUBSETS:
                for auto in (False, True):
                    n += 1
                    yield dict(kind="array", seed=seed * 100003 + n, members=members, auto=auto)
        for i in range(24 if q else 500):
            yield dict(kind="e2e", seed=seed * 1009 + i, auto=bool(i % 2))
        for i in range(40 if q else 800):
            yield dict(kind="hist", seed=seed * 1013 + i)

    def setup_worker(self):
        warnings.simplefilter("ignore")
        contracts.install()

    def execute(self, case):
        out = []

        def bad(mech, detail):
            out.append(result(VIOLATED, mechanism=mech, detail=dict(case=case, **detail), nontrivial=False))

        counters = {}
        rng = np.random.default_rng([case["seed"], 3])
        with np.errstate(all="ignore"):
            if case["kind"] == "array":
                self._array(case, rng, bad, counters)
            elif case["kind"] == "e2e":
                self._e2e(case, rng, bad, counters)
            else:
                self._hist(case, rng, bad, counters)
        nontrivial = counters.get("sample_rows_compared", 0) + counters.get("e2e_samples_compared", 0) + counters.get("hist_samples_compared", 0) > 0
        out.append(result(HELD, cls=case["kind"] + ("-auto" if case.get("auto") else ""), counters=counters,
                          nontrivial=nontrivial, sample=dict(case=case, counters=counters)))
        return out

    # ------------------------------------------------------------------
    def _array(self, case, rng, bad, counters):
        from yaw import RedshiftData

        nb, npatch = int(rng.integers(1, 9)), int(rng.integers(2, 13))
        cf = gen.gen_corrfunc(rng, nb, npatch, case["auto"], members=case["members"])
        if case_bits(case, "signed-weight-sums") & 1:
            # weight sums of either sign (signed weights are legal): small integers, so sums and products are exact;
            # leave-one-out normalisations may be negative or zero while the total is positive (round 7)
            srng = np.random.default_rng([case["seed"], 77])
            parts = {}
            for k, v in cf.to_dict().items():
                shape = v.sum_weights.sum_weights1.shape
                sw1 = srng.integers(-6, 12, shape).astype(float)
                sw2 = sw1.copy() if case["auto"] else srng.integers(-6, 12, shape).astype(float)
                parts[k] = type(v)(v.counts, type(v.sum_weights)(cf.binning, sw1, sw2, auto=case["auto"]))
            cf = type(cf)(**parts)
            counters["signed_weight_cases"] = counters.get("signed_weight_cases", 0) + 1
        info = {k: check_counts_container(nc, bad, counters) for k, nc in cf.to_dict().items()}
        s = cf.sample()
        # estimator sample-wise on the deletion-oracle terms
        terms_loo = {k: v["loo"] for k, v in info.items()}
        wants = jack.estimator(terms_loo)
        good = np.all([v["good"] for v in info.values()], axis=0)
        den_key = "rr" if "rr" in info else None
        scale = jack.estimator_scale(terms_loo)
        good &= np.isfinite(scale)
        if wants:
            matches = [close_abs(s.samples[good], w[good], np.maximum(scale[good], 1.0), rel=1e-9) for w in wants]
            counters["sample_rows_compared"] += int(good.any(axis=1).sum())
            if good.any() and not any(matches):
                k = int(np.argmax(np.where(good, np.abs(s.samples - wants[0]), 0).max(axis=1)))
                bad("corrfunc:sample-not-leave-one-out", dict(k=k, members=case["members"], got=s.samples[k].tolist(),
                                                               want=wants[0][k].tolist()))
        if s.samples.shape != (npatch, nb):
            bad("corrfunc:samples-shape", dict(shape=s.samples.shape))
        check_covariance(s, bad, "corrdata", counters)
        _ = den_key

        # redshift estimate: samples follow the samples of the ingredients
        if not case["auto"] and rng.random() < 0.5:
            ref = gen.gen_corrfunc(rng, nb, npatch, True, members=["dr"] + (["rr"] if rng.random() < 0.5 else []), sparsity=0.0)
            ref = type(ref)(**{k: type(v)(type(v.counts)(cf.binning, v.counts.counts, auto=True),
                                          type(v.sum_weights)(cf.binning, v.sum_weights.sum_weights1, v.sum_weights.sum_weights2, auto=True))
                               for k, v in ref.to_dict().items()})
            use_ref = ref if rng.random() < 0.7 else None
            unk = gen.gen_corrfunc(rng, nb, npatch, True, members=["dr"], sparsity=0.0)
            unk = type(unk)(**{k: type(v)(type(v.counts)(cf.binning, v.counts.counts, auto=True),
                                          type(v.sum_weights)(cf.binning, v.sum_weights.sum_weights1, v.sum_weights.sum_weights2, auto=True))
                               for k, v in unk.to_dict().items()})
            use_unk = unk if rng.random() < 0.5 else None
            nz = RedshiftData.from_corrfuncs(cf, use_ref, use_unk)
            ws = s.samples
            wss = use_ref.sample().samples if use_ref is not None else 1.0
            wpp = use_unk.sample().samples if use_unk is not None else 1.0
            dz = cf.binning.dz
            want = ws / np.sqrt(dz[None, :] ** 2 * wss * wpp)
            ok = np.isfinite(want) & np.isfinite(nz.samples)
            if not close_abs(nz.samples[ok], want[ok], np.abs(want[ok]) + 1e-300, rel=1e-9) or not np.array_equal(np.isnan(want), np.isnan(nz.samples)):
                bad("redshiftdata:samples-not-from-ingredient-samples", {})
            counters["sample_rows_compared"] += npatch
            check_covariance(nz, bad, "redshiftdata", counters)

    # ------------------------------------------------------------------
    def _e2e(self, case, rng, bad, counters):
        import yaw
        from yaw import Configuration

        P = int(rng.integers(3, 6))
        r = np.deg2rad(rng.uniform(0.4, 0.9))
        spacing = r * rng.uniform(1.2, 1.7)
        centres = cats.layout_centres(rng, P, spacing, str(rng.choice(["random", "wrap", "pole"])))
        centre_obj = cats.coords_obj(centres)
        edges = np.array([0.1, 0.35, 0.6, 1.0])[: int(rng.integers(2, 5))]
        closed = str(rng.choice(["left", "right"]))
        cfg = Configuration.create(rmin=[0.02, 0.1], rmax=[0.3, float(np.rad2deg(spacing))], unit="deg",
                                   edges=edges.tolist(), closed=closed)

        def points(n_each, with_z, with_w):
            xyz, _ = cats.points_around(rng, centres, n_each, r)
            xyz = np.concatenate([xyz, centres + rng.normal(0, 1e-6, centres.shape)])
            xyz /= np.linalg.norm(xyz, axis=1)[:, None]
            ra, dec = gen.xyz_to_radec(xyz)
            pid, margin = cats.nearest_centre(xyz, centres)
            keep = margin > 1e-7
            z = rng.uniform(edges[0] - 0.02, edges[-1] + 0.02, len(ra)) if with_z else None
            w = rng.uniform(0.5, 2.0, len(ra)) if with_w else None
            return dict(ra=ra[keep], dec=dec[keep], z=None if z is None else z[keep], w=None if w is None else w[keep], pid=pid[keep])

        def build(tmp, name, rec, drop=None):
            if drop is None:
                return cats.create(tmp / name, cats.table(rec["ra"], rec["dec"], w=rec["w"], z=rec["z"]), centers=centre_obj)
            # remove centre k together with its objects: the nearest remaining centre of every
            # other object is unchanged, so the remaining patches are exactly the old ones, relabelled
            m = rec["pid"] != drop
            return cats.create(tmp / name, cats.table(rec["ra"][m], rec["dec"][m],
                                                      w=None if rec["w"] is None else rec["w"][m],
                                                      z=None if rec["z"] is None else rec["z"][m]),
                               centers=cats.coords_obj(np.delete(centres, drop, axis=0)))

        auto = case["auto"]
        recs = {
            "a": points(rng.integers(15, 50, P), True, bool(rng.random() < 0.5)),
            "b": points(rng.integers(15, 60, P), auto or bool(rng.random() < 0.5), bool(rng.random() < 0.5)),
            "ra": points(rng.integers(20, 60, P), True, False),
            "rb": points(rng.integers(20, 60, P), False, False),
        }

        def measure(tmp, drop):
            c = {k: build(tmp, f"{k}-{drop}", v, drop) for k, v in recs.items()}
            if auto:
                return yaw.autocorrelate(cfg, c["a"], c["ra"], count_rr=True, max_workers=1)
            return yaw.crosscorrelate(cfg, c["a"], c["b"], ref_rand=c["ra"], unk_rand=c["rb"], max_workers=1)

        with Scratch("c03") as tmp:
            full = measure(tmp, None)
            for k in range(P):
                part = measure(tmp, k)
                for s, (cf, cp) in enumerate(zip(full, part)):
                    for kind, nc in cf.to_dict().items():
                        pc = getattr(cp, kind)
                        num_full = nc.counts.sample_patch_sum()
                        den_full = nc.sum_weights.sample_patch_sum()
                        num_part = pc.counts.sample_patch_sum().data
                        den_part = pc.sum_weights.sample_patch_sum().data
                        sc = np.abs(nc.counts.get_array()).sum(axis=(1, 2))
                        if not close_abs(num_full.samples[k], num_part, sc, rel=1e-10):
                            bad("e2e:counts-sample-differs-from-run-without-patch", dict(k=k, kind=kind, scale=s,
                                got=num_full.samples[k].tolist(), want=num_part.tolist()))
                        if not close_abs(den_full.samples[k], den_part, np.abs(den_full.data), rel=1e-10):
                            bad("e2e:normalisation-sample-differs-from-run-without-patch", dict(k=k, kind=kind, scale=s,
                                got=den_full.samples[k].tolist(), want=den_part.tolist()))
                    a, b = cf.sample().samples[k], cp.sample().data
                    terms = {kk: getattr(cp, kk).sample_patch_sum().data for kk in cp.to_dict()}
                    scale = jack.estimator_scale(terms)
                    ok = np.isfinite(a) & np.isfinite(b) & np.isfinite(scale)
                    if ok.any() and not close_abs(a[ok], b[ok], np.maximum(scale[ok], 1.0), rel=1e-8):
                        bad("e2e:estimator-sample-differs-from-run-without-patch", dict(k=k, scale=s, got=a.tolist(), want=b.tolist()))
                    counters["e2e_samples_compared"] = counters.get("e2e_samples_compared", 0) + 1

    # ------------------------------------------------------------------
    def _hist(self, case, rng, bad, counters):
        from yaw import Configuration, HistData

        P = int(rng.integers(2, 9))
        nb = int(rng.integers(1, 7))
        edges = gen.gen_edges(rng, nb, "irregular")
        closed = str(rng.choice(["left", "right"]))
        n_each = rng.integers(1, 60, P)
        pid = np.repeat(np.arange(P), n_each)
        n = len(pid)
        ra = rng.uniform(0, 2 * np.pi, n)
        dec = np.arcsin(rng.uniform(-1, 1, n))
        z = rng.uniform(edges[0] - 0.1, edges[-1] + 0.1, n)
        z[rng.choice(n, max(1, n // 8), replace=False)] = rng.choice(edges, max(1, n // 8))
        if case_bits(case, "patch-outside-binning") % 3 == 0:
            # a regular patch without any object inside the binning (a high-redshift pointing): its histogram row is
            # all zero, it is still one of the N jackknife regions
            k_out = int(rng.integers(P))
            z[pid == k_out] = edges[-1] + rng.uniform(0.2, 0.5, int((pid == k_out).sum()))
        w = rng.uniform(0.2, 3, n) if rng.random() < 0.5 else None
        if w is not None and rng.random() < 0.4:
            # huge dynamic range: a few objects outweigh the rest by many orders of magnitude, so that a sample
            # formed as "total minus patch k" loses the contribution of the light patches
            heavy = rng.choice(n, int(rng.integers(1, 3)), replace=False)
            w[heavy] *= 10.0 ** rng.integers(12, 17)
            z[heavy] = rng.uniform(edges[0], edges[-1], len(heavy))
        cfg = Configuration.create(rmin=1, rmax=2, edges=edges.tolist(), closed=closed)
        with Scratch("c03h") as tmp:
            cat = cats.create(tmp / "c", cats.table(ra, dec, w=w, z=z, patch=pid))
            h = HistData.from_catalog(cat, cfg if rng.random() < 0.5 else cfg.binning, max_workers=1)
            rec = cats.records(cat)
        ww = np.ones(n) if rec["w"] is None else rec["w"]
        members = bin_members(rec["z"], edges, closed)
        if h.samples.shape != (P, nb):
            bad("hist:samples-shape", dict(shape=h.samples.shape))
            return
        # leave-one-out relation only (the binning rule itself is C10's): sample k = total - patch k
        per_patch = np.array([[ww[m & (rec["pid"] == p)].sum() for m in members] for p in range(P)])
        want_tot = per_patch.sum(axis=0)
        for k in range(P):
            want = np.delete(per_patch, k, axis=0).sum(axis=0)
            counters["hist_samples_compared"] = counters.get("hist_samples_compared", 0) + 1
            # tolerate a different closed-side convention here (C10 judges it): compare through the
            # code's own total: data - samples[k] must be patch k's contribution
            contrib = h.data - h.samples[k]
            loose_ok = close_abs(contrib, per_patch[k], np.abs(want_tot) + 1.0, rel=1e-12)
            # the sample itself against the recount without patch k, to the rounding of a sum over the
            # REMAINING patches (what "recomputed with patch k removed" can differ by)
            remaining = np.abs(np.delete(per_patch, k, axis=0)).sum(axis=0)
            if loose_ok and not close_abs(h.samples[k], want, remaining, rel=1e-12):
                bad("hist:sample-differs-from-recount-beyond-rounding", dict(k=k, got=h.samples[k].tolist(), want=want.tolist(),
                                                                             removed=per_patch[k].tolist()))
                break
            if not loose_ok:
                # fall back: maybe only edge-valued objects differ (C10) -> recount with the other rule
                alt = {"left": "right", "right": "left"}[closed]
                alt_members = bin_members(rec["z"], edges, alt)
                edge_valued = np.isin(rec["z"], edges)
                if edge_valued.any():
                    lo = np.array([ww[m & ~edge_valued & (rec["pid"] == k)].sum() for m in members])
                    hi = lo + np.array([ww[(m | am) & edge_valued & (rec["pid"] == k)].sum() for m, am in zip(members, alt_members)])
                    if np.all(contrib >= lo - 1e-9) and np.all(contrib <= hi + 1e-9):
                        counters["hist_edge_ambiguous"] = counters.get("hist_edge_ambiguous", 0) + 1
                        continue
                bad("hist:sample-not-leave-one-out", dict(k=k, got=h.samples[k].tolist(), want=want.tolist(),
                                                          data=h.data.tolist(), P=P))
                break
        check_covariance(h, bad, "histdata", counters)


CHECK = C03()
