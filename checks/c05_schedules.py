"""C05 — results do not depend on worker count or completion order
(multiprocessing back end).

Differential monitor over schedules: every parallel entry point is run (a) with
the FakePool of engines/fakepool.py under enumerated / structured / seeded
completion orders and (b) with the real multiprocessing.Pool under seeded
delays; the public results are serialised canonically and compared bitwise with
the sequential run on identical copies of the cache directories."""

from __future__ import annotations

import hashlib
import os
import shutil
import time
import warnings
from pathlib import Path

import numpy as np

from engines import fakepool
from engines.procwatch import run_forked
from vlib import cats, gen
from vlib.core import ERROR, HELD, VIOLATED, Check, Scratch, result, case_bits

POLICIES = ["identity", "reverse", "rotate", "transpose", "first-last", "random"]


def h(b: bytes) -> str:
    return hashlib.sha1(b).hexdigest()


def ser_catalog(cat):
    parts = []
    for pid in cat:
        p = cat[pid]
        parts.append(repr((int(pid), p.meta.to_dict())).encode() + p.load_data().tobytes())
    # every Mapping view and the per-patch getters: their order is part of what the caller sees
    views = dict(iter=[int(k) for k in cat], keys=[int(k) for k in cat.keys()], items=[int(k) for k, _ in cat.items()],
                 values=[int(v.cache_path.name.split("_")[-1]) for v in cat.values()],
                 num_records=[int(x) for x in cat.get_num_records()], sum_weights=[float(x) for x in cat.get_sum_weights()],
                 centers=np.asarray(cat.get_centers().data).tolist(), radii=np.asarray(cat.get_radii().data).tolist())
    return h(b"|".join(parts)) + f":{views}"


def ser_trees(cat):
    """Trees through their public content (points, weights, sums per bin) plus the bytes of the
    binning marker.  The raw trees.pkl bytes are not compared: scipy pickles its node buffer
    including uninitialised struct padding, which differs between builds of identical trees."""
    from yaw.catalog.trees import BinnedTrees

    parts = []
    for pid in cat:
        d = cat[pid].cache_path
        bt = BinnedTrees(cat[pid])
        trees = bt.trees if bt.is_binned() else (bt.trees,)
        for t in trees:
            parts.append(repr((t.num_records, t.sum_weights)).encode() + t.data.tobytes()
                         + (b"" if t.weights is None else np.asarray(t.weights).tobytes())
                         + (b"" if t.tree is None else np.asarray(t.tree.indices).tobytes()))
        parts.append(b"#" + (d / "binning").read_bytes())
    return h(b"|".join(parts))


def ser_corrfuncs(cfs):
    parts = []
    for cf in cfs:
        for kind in ("dd", "dr", "rd", "rr"):
            nc = getattr(cf, kind)
            if nc is None:
                parts.append(b"-")
            else:
                parts.append(nc.counts.counts.tobytes() + nc.sum_weights.sum_weights1.tobytes() + nc.sum_weights.sum_weights2.tobytes())
        with np.errstate(all="ignore"):
            s = cf.sample()
        parts.append(s.data.tobytes() + s.samples.tobytes())
    return h(b"|".join(parts))


def ser_hist(hd):
    return h(hd.data.tobytes()), h(hd.samples.tobytes())


class C05(Check):
    id = "C05"
    level = "exploration"
    rule = (
        "pre-built cache directories (3..4 patches) are copied per run; entry points Catalog(dir) [metadata recomputed], "
        "build_trees, autocorrelate, crosscorrelate, HistData.from_catalog are executed sequentially and under schedules: "
        "FakePool with ALL 24 completion orders of the 4 per-patch tasks (load/trees/histogram; exhaustive for that "
        "stratum), structured (identity, reverse, rotation, adjacent transposition, first-task-last) and seeded random "
        "orders for pair counting, worker counts 1..T+3 and 64; real multiprocessing.Pool with 2/3/4/8 workers and seeded "
        "delays per task (observed completion orders recorded). Public results (ids -> metadata -> record bytes; "
        "trees.pkl/binning bytes; all count arrays, sample(); histogram data and sample rows) must be bit-identical. "
        "non-trivial = the schedule differs from submission order; distinct = (entry point set, schedule)"
        ' Further stages: all Mapping views, separation weighting on Mpc scales, a stock-named cosmology with other parameters, relocated sessions (relative paths + chdir), a 140 000-record patch, 300 patches, forced rebuild with another leaf size; every computation in forked children.'
    )
    assumptions = [
        "FakePool is a faithful double of imap_unordered's contract (any order, each result once)",
        "real-pool completion orders are whatever the seeded delays produce; distinct observed orders are reported",
    ]
    floor_nontrivial = 20
    required_counters = ("fakepool_runs", "realpool_runs", "results_compared", "schedules_not_identity", "realpool_orders_permuted")
    shards = (14, 16)
    budget = (300, 700)

    def cases(self, tier, seed):
        q = tier == "quick"
        perms = fakepool.all_permutations(4)
        for i, p in enumerate(perms):
            yield dict(kind="fake-exhaustive", perm=list(p), seed=seed * 1009 + (i % 3), workers=int([2, 4, 7, 64][i % 4]))
        for i in range(36 if q else 1500):
            yield dict(kind="fake-paircount", policy=POLICIES[i % len(POLICIES)], seed=seed * 100003 + i,
                       workers=int([1, 2, 3, 5, 9, 12, 64][i % 7]), P=3 + (i % 2))
        for i in range(10 if q else 150):
            yield dict(kind="real", seed=seed * 1013 + i, workers=int([2, 3, 4, 8][i % 4]), P=4)

    def setup_worker(self):
        warnings.simplefilter("ignore")
        import yaw  # noqa: F401

    # ------------------------------------------------------------------
    def _build_world(self, tmp, rng, P, name="base", many=False):
        r = np.deg2rad(0.7)
        centres = cats.layout_centres(rng, P, r * 1.5)
        cobj = cats.coords_obj(centres)

        def mk(name, n_each, w):  # noqa: F811
            xyz, src = cats.points_around(rng, centres, n_each, r)
            xyz = np.concatenate([xyz, centres])
            src = np.concatenate([src, np.arange(len(centres))])
            ra, dec = gen.xyz_to_radec(xyz)
            z = rng.uniform(0.1, 1.0, len(ra))
            z[rng.choice(len(z), len(z) // 3, replace=False)] = rng.choice([0.1, 0.4, 0.7, 1.0], len(z) // 3)  # exactly on bin edges
            if name == "ref":  # a sparse low-redshift sample: the first patch has no object in the lowest bin
                low = (src == 0) & (z <= 0.4)
                z[low] = rng.uniform(0.45, 0.95, int(low.sum()))
            return cats.create(tmp / world / name, cats.table(ra, dec, z=z,
                                                               w=rng.uniform(0.5, 2, len(ra)) if w else None), centers=cobj)

        world = name
        (tmp / world).mkdir()
        mk("ref", rng.integers(8, 30, P), True)
        mk("unk", rng.integers(8, 30, P), False)
        mk("rr", rng.integers(10, 30, P), False)
        mk("ur", rng.integers(10, 30, P), False)
        if name == "base":
            # catalogs with more than 256 patches (patch numbers beyond the small-integer cache of the interpreter,
            # beyond one byte): 300 compact patches on a grid, three objects each
            npatch = 300 if many else 0
            gi, gj = np.divmod(np.arange(npatch), 20)
            cra, cdec = np.deg2rad(100.0 + 1.5 * gj), np.deg2rad(-12.0 + 1.5 * gi)
            for nm, per in ((("many", 3), ("many_rand", 4)) if many else ()):
                pid_ = np.repeat(np.arange(npatch), per)
                ra_ = cra[pid_] + rng.normal(0, np.deg2rad(0.2), len(pid_))
                dec_ = cdec[pid_] + rng.normal(0, np.deg2rad(0.2), len(pid_))
                cats.create(tmp / world / nm, cats.table(ra_, dec_, z=rng.uniform(0.1, 1.0, len(pid_))),
                            centers=cats.coords_obj(np.column_stack([cra, cdec])))
            # a catalog with one very large patch (more records than 2^20 / 8 and than 10^5): loaded with the
            # metadata computation forced and histogrammed, never pair-counted
            nbig = 140_000
            xyz = np.concatenate([gen.cap_points(rng, centres[0], r, nbig), gen.cap_points(rng, centres[1], r, 300)])
            ra, dec = gen.xyz_to_radec(xyz)
            cats.create(tmp / world / "big", cats.table(ra, dec, z=rng.uniform(0.05, 1.05, len(ra)), w=rng.uniform(0.5, 2, len(ra)),
                                                       patch=np.concatenate([np.zeros(nbig, int), np.ones(300, int)])))

    closed = "right"

    def _run_all(self, tmp, tag, max_workers, entry="all"):
        """Run every entry point on a fresh copy of the base caches; returns dict of serialisations.
        ``tmp`` may be a relative path (the caches are then addressed relative to the working directory)."""
        import yaw
        from yaw import Catalog, Configuration, HistData
        from yaw.catalog.trees import BinnedTrees

        work = tmp / tag
        cfg = Configuration.create(rmin=[0.02, 0.1], rmax=[0.3, 1.0], unit="deg", edges=[0.1, 0.4, 0.7, 1.0], closed=self.closed)
        res = {}
        # loading with the metadata computation forced (meta.yml removed) on a separate copy
        shutil.copytree(tmp / "base", work)
        for f in work.glob("*/patch_*/meta.yml"):
            f.unlink()
        res["load_compute_meta"] = "|".join(ser_catalog(Catalog(work / k, max_workers=max_workers)) for k in ("ref", "unk", "big"))
        hb = HistData.from_catalog(Catalog(work / "big", max_workers=max_workers), cfg, max_workers=max_workers)
        res["hist_big_data"], res["hist_big_samples"] = ser_hist(hb)
        shutil.rmtree(work)
        shutil.copytree(tmp / "base", work)
        c = {k: Catalog(work / k, max_workers=max_workers) for k in ("ref", "unk", "rr", "ur")}
        res["load"] = "|".join(ser_catalog(c[k]) for k in c)
        c["ref"].build_trees(cfg.binning.edges, closed=self.closed, max_workers=max_workers)
        res["trees"] = ser_trees(c["ref"])
        # a forced rebuild with the same binning but another leaf size replaces the trees for every worker count
        c["ref"].build_trees(cfg.binning.edges, closed=self.closed, leafsize=4, force=True, max_workers=max_workers)
        res["trees_forced_other_leafsize"] = ser_trees(c["ref"]) + "|" + ",".join(
            str(t.tree.leafsize if t.tree is not None else None) for pid in c["ref"] for t in BinnedTrees(c["ref"][pid]).trees)
        c["ref"].build_trees(cfg.binning.edges, closed=self.closed, force=True, max_workers=max_workers)  # back to the default leaf size
        res["hist_data"], res["hist_samples"] = ser_hist(HistData.from_catalog(c["ref"], cfg, max_workers=max_workers))
        if entry == "all":
            res["cross"] = ser_corrfuncs(yaw.crosscorrelate(cfg, c["ref"], c["unk"], ref_rand=c["rr"], unk_rand=c["ur"], max_workers=max_workers))
            res["auto"] = ser_corrfuncs(yaw.autocorrelate(cfg, c["ref"], c["rr"], max_workers=max_workers))
            if (work / "many").exists():
                many = {k: Catalog(work / k, max_workers=max_workers) for k in ("many", "many_rand")}
                res["auto_many_patches"] = ser_corrfuncs(yaw.autocorrelate(cfg, many["many"], many["many_rand"], count_rr=True, max_workers=max_workers))
            # separation weighting on physical scales (the angular grid differs from redshift bin to redshift bin)
            cfg_rw = Configuration.create(rmin=[0.1, 0.5], rmax=[2.0, 8.0], unit="Mpc", rweight=-0.8, resolution=12,
                                          edges=[0.1, 0.4, 0.7, 1.0], closed=self.closed)
            # a cosmology that carries the name of a stock model but other parameters (physical scales)
            import astropy.cosmology

            cfg_nm = Configuration.create(rmin=[0.1, 0.5], rmax=[2.0, 8.0], unit="Mpc", edges=[0.1, 0.4, 0.7, 1.0], closed=self.closed,
                                          cosmology=astropy.cosmology.FlatLambdaCDM(H0=58.0, Om0=0.42, name="Planck18"))
            res["cross_named_cosmology"] = ser_corrfuncs(yaw.crosscorrelate(cfg_nm, c["ref"], c["unk"], unk_rand=c["ur"], max_workers=max_workers))
            res["cross_rweight"] = ser_corrfuncs(yaw.crosscorrelate(cfg_rw, c["ref"], c["unk"], ref_rand=c["rr"], unk_rand=c["ur"], max_workers=max_workers))
            # the same measurement after another binning was used sequentially on the same caches and
            # in the same process (in-process memos must not leak into / out of pool workers)
            cfg_a = Configuration.create(rmin=[0.02, 0.1], rmax=[0.3, 1.0], unit="deg", edges=[0.1, 0.55, 1.0], closed="left")
            yaw.crosscorrelate(cfg_a, c["ref"], c["unk"], ref_rand=c["rr"], unk_rand=c["ur"], max_workers=1)
            res["cross_after_other_binning"] = ser_corrfuncs(
                yaw.crosscorrelate(cfg, c["ref"], c["unk"], ref_rand=c["rr"], unk_rand=c["ur"], max_workers=max_workers))
            res["cross_after_other_binning_then_sequential"] = ser_corrfuncs(
                yaw.crosscorrelate(cfg, c["ref"], c["unk"], ref_rand=c["rr"], unk_rand=c["ur"], max_workers=1))
        shutil.rmtree(work)
        return res

    def execute(self, case):
        rng = np.random.default_rng([case["seed"], 5])
        out = []
        counters = {}

        def bad(mech, detail):
            out.append(result(VIOLATED, mechanism=mech, detail=dict(case=case, **detail), nontrivial=False))

        P = case.get("P", 4)
        self.closed = "left" if case_bits(case, "closed") % 2 else "right"  # objects pickled to workers must keep the closed side
        nontrivial = True
        with Scratch("c05") as tmp:
            self._build_world(tmp, rng, P, many=(case["kind"] == "real" and case_bits(case, "many-patches") % 2 == 0))
            os.environ["YAW_NUM_THREADS"] = "1"
            if case["kind"] == "real":
                # the sequential reference runs in its own process: pool workers are forked from a parent that has
                # not counted a single pair itself (nothing computed sequentially can be inherited by them)
                rs = run_forked(lambda: self._run_all(tmp, "seq", 1), workdir=tmp, wall_cap=240)
                if rs["outcome"] != "returned":
                    return [result(ERROR, detail=f"sequential reference: {rs}", nontrivial=False)]
                want = rs["value"]
            if case["kind"].startswith("fake"):
                # everything that counts pairs runs in a forked child: the check's worker process itself never
                # executes library computations, so nothing it computed can be inherited by later pool workers
                def fake_child():
                    want_ = self._run_all(tmp, "seq", 1)
                    if case["kind"] == "fake-exhaustive":
                        sched = fakepool.Schedule(explicit={4: tuple(case["perm"])}, policy="random", seed=case["seed"])
                    else:
                        sched = fakepool.Schedule(policy=case["policy"], seed=case["seed"])
                    with fakepool.installed(sched, workers=case["workers"]):
                        got_ = self._run_all(tmp, "fake", case["workers"] if case["workers"] > 1 else 2)
                    return dict(want=want_, got=got_, calls=sched.calls, log=[[a, b, list(c)] for a, b, c in sched.log])

                rf = run_forked(fake_child, workdir=tmp, wall_cap=300)
                if rf["outcome"] == "raised":
                    bad(f"fakepool-run:raises-{rf['type']}", dict(error=rf["message"][:300]))
                    return out
                if rf["outcome"] != "returned":
                    return [result(ERROR, detail=f"fake-pool child: {rf}", nontrivial=False)]
                want, got, log_ = rf["value"]["want"], rf["value"]["got"], rf["value"]["log"]
                counters["fakepool_runs"] = 1
                counters["fakepool_maps"] = rf["value"]["calls"]
                nonid = sum(1 for _, T, p in log_ if list(p) != list(range(T)))
                counters["schedules_not_identity"] = nonid
                nontrivial = nonid > 0 or case.get("policy") == "identity" or case.get("perm") == [0, 1, 2, 3]
                sample = dict(case=case, maps=rf["value"]["calls"], first_orders=[list(p) for _, _, p in log_[:4]])
            else:
                relocate = case_bits(case, "relocate") % 2 == 0
                if relocate:
                    self._build_world(tmp, np.random.default_rng([case["seed"], 55]), P, name="other")
                    (tmp / "elsewhere").mkdir()
                    shutil.move(str(tmp / "other"), str(tmp / "elsewhere" / "real"))
                    counters["relocated_sessions"] = 1

                def child():
                    import yaw.utils.parallel as par

                    os.environ["YAW_NUM_THREADS"] = str(case["workers"])
                    orig_call = par.ParallelJob.__call__
                    orig_iter = par.iter_unordered
                    order_log = []

                    slept = [0]

                    def delayed(self_, arg):
                        # seeded delays permute the completion order; only the first couple of hundred tasks of a
                        # process are delayed: a map of thousands of tiny tasks would otherwise spend its time asleep
                        # (slow, and indistinguishable from a blocked pool for the watchdog)
                        slept[0] += 1
                        if slept[0] <= 200:
                            key = repr(getattr(arg, "cache_path", None) or (getattr(arg, "id1", None), getattr(arg, "id2", None)) or arg)
                            t = int(hashlib.sha1((key + str(case["seed"])).encode()).hexdigest()[:4], 16) % 12
                            time.sleep(t * 0.0015)
                        return orig_call(self_, arg)

                    def observing(func, iterable, **kw):
                        seq = []
                        for r in orig_iter(func, iterable, **kw):
                            ident = getattr(r, "cache_path", None)
                            if ident is not None:
                                ident = Path(ident).name
                            elif hasattr(r, "id1"):
                                ident = f"{r.id1}-{r.id2}"
                            elif isinstance(r, tuple) and len(r) == 2 and np.isscalar(r[0]):
                                ident = f"patch_{int(r[0])}"
                            else:
                                ident = h(repr(r).encode())[:6]
                            seq.append(ident)
                            yield r
                        order_log.append(seq)

                    par.ParallelJob.__call__ = delayed
                    par.iter_unordered = observing
                    if relocate:
                        # the session first works, in parallel, in another directory that holds equally named
                        # caches of OTHER data, addressed by relative paths; then it changes directory
                        from yaw import Catalog

                        os.chdir(tmp / "elsewhere")
                        for f in Path("real").glob("*/patch_*/meta.yml"):
                            f.unlink()
                        for k in ("ref", "unk", "rr", "ur"):
                            cat_ = Catalog(Path("real") / k, max_workers=case["workers"])
                            cat_.build_trees(None if k in ("unk", "ur") else [0.1, 0.4, 0.7, 1.0], closed=self.closed, max_workers=case["workers"])
                        os.chdir(tmp)
                        res = self._run_all(Path("."), "real", case["workers"])
                    else:
                        res = self._run_all(tmp, "real", case["workers"])
                    res["_orders"] = order_log
                    return res

                r = run_forked(child, workdir=tmp, wall_cap=240)
                if r["outcome"] == "quiescent":
                    bad("realpool:hang", dict(stack=r.get("stack", "")[-16000:], processes=r.get("processes")))
                    return out
                if r["outcome"] == "raised":
                    bad(f"realpool-run:raises-{r['type']}", dict(error=r["message"]))
                    return out
                if r["outcome"] != "returned":
                    return [result(ERROR, detail=str(r), nontrivial=False)]
                got = r["value"]
                orders = got.pop("_orders")
                counters["realpool_runs"] = 1
                # submission order for per-patch maps is patch_0..patch_{P-1}; for pair maps unknown -> compare to sorted
                permuted = sum(1 for seq in orders if seq != sorted(seq) and all(s.startswith("patch_") for s in seq))
                counters["realpool_orders_permuted"] = permuted
                counters["realpool_maps"] = len(orders)
                nontrivial = True
                sample = dict(case=case, maps=len(orders), first_orders=orders[:3])
        for key in want:
            counters["results_compared"] = counters.get("results_compared", 0) + 1
            ref_key = "cross" if key.startswith("cross_after") else key
            if got.get(key) != want[ref_key]:
                how = "fakepool" if case["kind"].startswith("fake") else "realpool"
                bad(f"schedule-dependent:{key}:{how}", dict(workers=case["workers"]))
        out.append(result(HELD, cls=case["kind"], counters=counters, nontrivial=nontrivial, sample=sample))
        return out


CHECK = C05()
