"""C15 — configurations mean what their parameters say; modify equals create.

Reference-model monitor: bin edges and scale angles are recomputed from the
parameters with astropy only; ``modify`` is compared against ``create`` on the
merged parameter set (construction-path equivalence)."""

from __future__ import annotations

import copy
import warnings

import numpy as np

from vlib.core import HELD, SKIPPED, VIOLATED, Check, case_bits, result

METHODS = ["linear", "comoving", "logspace"]
UNITS = ["kpc", "Mpc", "rad", "deg", "arcmin", "arcsec", "kpc/h", "Mpc/h"]
COSMOS = [None, "Planck15", "WMAP9", "Planck18", "custom", "custom2", "custom3", "flcdm", "flcdm-curved"]


def make_custom_cosmology(h0=70.0, om0=0.3, ode0=None):
    from astropy.cosmology import FlatLambdaCDM, LambdaCDM

    from yaw.cosmology import CustomCosmology

    class MyCosmo(CustomCosmology):
        _c = FlatLambdaCDM(H0=h0, Om0=om0)
        # with ode0 the model is curved: its angular diameter distance is NOT comoving_distance / (1 + z)
        _a = _c if ode0 is None else LambdaCDM(H0=h0, Om0=om0, Ode0=ode0)

        def comoving_distance(self, z):
            return self._a.comoving_distance(z).value

        def angular_diameter_distance(self, z):
            return self._a.angular_diameter_distance(z).value

    return MyCosmo()


def resolve_cosmology(c):
    import astropy.cosmology

    if c is None or c == "default":
        return astropy.cosmology.Planck15
    if c == "custom":
        return make_custom_cosmology()
    if c == "custom2":
        return make_custom_cosmology(62.0, 0.41)
    if c == "custom3":
        return make_custom_cosmology(66.0, 0.33, ode0=1.15)
    if isinstance(c, str) and c.startswith("flcdm-curved"):
        from astropy.cosmology import LambdaCDM

        return LambdaCDM(H0=64.0, Om0=0.36, Ode0=1.1)
    if isinstance(c, str) and c.startswith("flcdm"):
        # an unnamed astropy model (name None): parameters from the tag "flcdm:<H0>:<Om0>"
        from astropy.cosmology import FlatLambdaCDM

        parts = c.split(":")
        return FlatLambdaCDM(H0=float(parts[1]) if len(parts) > 1 else 66.0, Om0=float(parts[2]) if len(parts) > 2 else 0.35)
    if isinstance(c, str):
        return getattr(astropy.cosmology, c)
    return c


def dist_value(x):
    return getattr(x, "value", x)


def gen_params(rng):
    """A parameter dictionary as a user would pass to Configuration.create."""
    p = {}
    nscales = int(rng.choice([1, 1, 2, 3]))
    unit = str(rng.choice(UNITS))
    base = {"kpc": 100.0, "Mpc": 0.1, "rad": 1e-4, "deg": 0.01, "arcmin": 0.5, "arcsec": 30.0,
            "kpc/h": 100.0, "Mpc/h": 0.1}[unit]
    rmin = base * rng.uniform(0.5, 2.0, nscales)
    rmax = rmin * rng.uniform(1.5, 20.0, nscales)
    if nscales == 1 and rng.random() < 0.7:
        p["rmin"], p["rmax"] = float(rmin[0]), float(rmax[0])
    else:
        p["rmin"], p["rmax"] = rmin.tolist(), rmax.tolist()
    p["unit"] = unit
    if rng.random() < 0.4:
        p["rweight"] = float(rng.choice([-1.0, 0.5, -0.8]))
        p["resolution"] = int(rng.choice([1, 3, 50]))
    elif rng.random() < 0.25:
        p["resolution"] = int(rng.choice([1, 7, 50]))  # a resolution without separation weighting is kept as given
    kind = rng.choice(["gen", "gen", "gen", "custom"])
    if kind == "gen":
        p["zmin"] = float(rng.choice([0.0, 0.01, 0.07, 0.1, 0.3, rng.uniform(0.0, 1.0)]))
        p["zmax"] = p["zmin"] + float(rng.choice([0.2, 1.0, 2.9, rng.uniform(0.05, 3.0)]))
        p["num_bins"] = int(rng.choice([1, 2, 5, 30]))
        p["method"] = str(rng.choice(METHODS))
    else:
        nb = int(rng.choice([1, 2, 6]))
        p["edges"] = (rng.uniform(0.0, 0.5) + np.concatenate([[0], np.cumsum(rng.uniform(0.01, 0.6, nb))])).tolist()
    if rng.random() < 0.7:
        p["closed"] = str(rng.choice(["left", "right"]))
    cosmo = COSMOS[int(rng.integers(len(COSMOS)))]
    if cosmo == "flcdm":
        cosmo = f"flcdm:{rng.uniform(55, 80):.3f}:{rng.uniform(0.2, 0.45):.3f}"
    if cosmo is not None:
        p["cosmology"] = cosmo
    if rng.random() < 0.2:
        p["max_workers"] = int(rng.integers(1, 5))
    return p


def realise(p, numpy_types=False):
    """Turn the JSON-able description into create() keyword arguments.  numpy_types: numbers are handed over
    as numpy scalars/arrays (what a caller computing its parameters with numpy passes)."""
    kw = dict(p)
    if numpy_types == "f4":
        # single-precision limits (e.g. the min/max of a float32 catalog column): exactly representable values, float32 type
        for k in ("zmin", "zmax"):
            if isinstance(kw.get(k), float):
                kw[k] = np.float32(kw[k])
        numpy_types = False
    if numpy_types:
        for k, v in list(kw.items()):
            if isinstance(v, bool) or v is None or isinstance(v, str):
                continue
            if isinstance(v, int):
                kw[k] = np.int64(v)
            elif isinstance(v, float):
                kw[k] = np.float64(v)
            elif isinstance(v, list):
                kw[k] = np.asarray(v, dtype=float)
    c = kw.get("cosmology")
    if isinstance(c, str) and (c.startswith("custom") or c.startswith("flcdm")):
        kw["cosmology"] = resolve_cosmology(c)
    return kw


def merge(p, delta):
    """Merged parameters of modify(**delta): the two binning parameter groups
    (generated: zmin/zmax/num_bins/method; custom: edges) are exclusive."""
    m = dict(p)
    if "edges" in delta:
        for k in ("zmin", "zmax", "num_bins", "method"):
            m.pop(k, None)
    if any(k in delta for k in ("zmin", "zmax", "num_bins", "method")):
        m.pop("edges", None)
    m.update(delta)
    return m


def gen_delta(rng, p):
    """A modification that is well defined for the given parameters."""
    custom = "edges" in p
    choices = ["rmin_rmax", "unit", "rweight", "closed", "cosmology", "max_workers", "edges", "nothing", "switch_gen"]
    if not custom:
        choices += ["zmin", "zmax", "num_bins", "method", "num_bins", "method"]
    k = int(rng.choice([1, 1, 1, 2, 3]))
    picks = list(rng.choice(choices, size=k, replace=False))
    d = {}
    for c in picks:
        if c == "rmin_rmax":
            n = int(rng.choice([1, 2]))
            lo = rng.uniform(1.0, 2.0, n) * (np.atleast_1d(p["rmin"])[0])
            hi = lo * rng.uniform(2, 5, n)
            d["rmin"], d["rmax"] = (float(lo[0]), float(hi[0])) if n == 1 else (lo.tolist(), hi.tolist())
        elif c == "unit":
            # stay in the same family so the numbers remain sensible
            fam = [["kpc", "Mpc", "kpc/h", "Mpc/h"], ["rad", "deg", "arcmin", "arcsec"]]
            for f in fam:
                if p["unit"] in f:
                    d["unit"] = str(rng.choice(f))
        elif c == "rweight":
            if rng.random() < 0.3:
                d["rweight"], d["resolution"] = None, None
            elif rng.random() < 0.3:
                d["rweight"], d["resolution"] = 0.0, int(rng.choice([1, 10]))  # falsy but valid exponent
            else:
                d["rweight"], d["resolution"] = float(rng.choice([-1.0, 0.3])), int(rng.choice([2, 20]))
        elif c == "closed":
            d["closed"] = str(rng.choice(["left", "right"]))
        elif c == "cosmology":
            d["cosmology"] = str(rng.choice(["Planck15", "WMAP9", "Planck18", "WMAP5", "custom", "custom2", "custom3", "flcdm:71.5:0.27", "flcdm-curved"]))
        elif c == "max_workers":
            d["max_workers"] = int(rng.integers(1, 9))
        elif c == "edges":
            nb = int(rng.choice([1, 3]))
            d["edges"] = (0.05 + np.concatenate([[0], np.cumsum(rng.uniform(0.05, 0.5, nb))])).tolist()
        elif c == "switch_gen":
            d.update(zmin=0.15, zmax=float(rng.choice([0.9, 2.0])), num_bins=int(rng.choice([1, 4])))
            if rng.random() < 0.7:  # without a method create() defaults to linear
                d["method"] = str(rng.choice(METHODS))
            elif not custom:
                d["method"] = p.get("method", "linear")
        elif c == "zmin":
            # including the falsy-but-valid value 0.0
            d["zmin"] = 0.0 if rng.random() < 0.4 else float(p["zmin"] * rng.uniform(0.0, 1.0))
        elif c == "zmax":
            d["zmax"] = float(p["zmax"] + rng.uniform(0.01, 1.0))
        elif c == "num_bins":
            d["num_bins"] = int(rng.choice([1, 3, 7]))
        elif c == "method":
            d["method"] = str(rng.choice(METHODS))
    if "edges" in d:
        for k2 in ("zmin", "zmax", "num_bins", "method"):
            d.pop(k2, None)
    return d


def describe(cfg):
    """Comparable description that does not need to_dict() (custom cosmologies
    cannot be serialised)."""
    from yaw.cosmology import CustomCosmology

    cosmo = cfg.cosmology
    fingerprint = round(float(dist_value(cosmo.comoving_distance(1.0))), 6)
    return dict(
        scales=cfg.scales.to_dict(),
        method=str(cfg.binning.method),
        closed=str(cfg.binning.closed),
        edges=cfg.binning.edges.tobytes().hex(),
        cosmology=("custom" if isinstance(cosmo, CustomCosmology) else str(cosmo.name)) + f"@{fingerprint}",
        max_workers=cfg.max_workers,
    )


def expected_edges_ok(p, edges, cosmo):
    """None if the edges match the parameters, else (mechanism, detail)."""
    if "edges" in p and not ("zmin" in p and "zmax" in p):
        want = np.asarray(p["edges"], dtype=float)
        if not np.array_equal(edges, want):
            return "edges:custom-changed", dict(want=want.tolist(), got=edges.tolist())
        return None
    n = p.get("num_bins", 30)
    method = p.get("method", "linear")
    if len(edges) != n + 1:
        return "edges:count", dict(want=n + 1, got=len(edges))
    if not np.all(np.diff(edges) > 0):
        return "edges:not-increasing", dict(edges=edges.tolist())
    if edges[0] != p["zmin"] or edges[-1] != p["zmax"]:
        return f"edges:outer-not-exact:{method}", dict(
            zmin=p["zmin"], zmax=p["zmax"], got=[edges[0], edges[-1]],
            dev=[edges[0] - p["zmin"], edges[-1] - p["zmax"]])
    if method == "linear":
        x = edges
    elif method == "logspace":
        x = np.log1p(edges)
    else:
        x = np.asarray(dist_value(cosmo.comoving_distance(edges)), dtype=float)
    # inner edges must sit on the uniform grid between the (exact) outer edges; the numerical
    # inversion of the comoving distance is accurate to ~1e-8 in z, hence the absolute term
    ideal = np.linspace(x[0], x[-1], n + 1)
    tol = 1e-6 * (x[-1] - x[0]) / n + 1e-7 * abs(x[-1])
    if np.any(np.abs(x - ideal) > tol):
        return f"edges:not-uniform:{method}", dict(widths=np.diff(x).tolist(), tol=tol)
    return None


def expected_angles(p, z, cosmo):
    rmin = np.atleast_1d(np.asarray(p["rmin"], dtype=float))
    rmax = np.atleast_1d(np.asarray(p["rmax"], dtype=float))
    unit = p.get("unit", "kpc")
    if unit == "rad":
        f = 1.0
    elif unit == "deg":
        f = np.pi / 180
    elif unit == "arcmin":
        f = np.pi / 180 / 60
    elif unit == "arcsec":
        f = np.pi / 180 / 3600
    else:
        if unit in ("kpc", "Mpc"):
            D = float(dist_value(cosmo.angular_diameter_distance(z)))
        else:
            D = float(dist_value(cosmo.comoving_distance(z)))
        f = (1e-3 if unit.startswith("kpc") else 1.0) / D
    return rmin * f, rmax * f


INVALID = [
    ("edges-decreasing", dict(rmin=1, rmax=2, edges=[0.5, 0.4, 0.3])),
    ("edges-duplicate", dict(rmin=1, rmax=2, edges=[0.1, 0.2, 0.2, 0.3])),
    ("edges-single", dict(rmin=1, rmax=2, edges=[0.1])),
    ("rmin>rmax", dict(rmin=5, rmax=2, zmin=0.1, zmax=1)),
    ("rmin==rmax", dict(rmin=2, rmax=2, zmin=0.1, zmax=1)),
    ("rmin>rmax-one-of-many", dict(rmin=[1, 5], rmax=[2, 4], zmin=0.1, zmax=1)),
    ("scales-length-mismatch", dict(rmin=[1, 2], rmax=[3], zmin=0.1, zmax=1)),
    ("unknown-method", dict(rmin=1, rmax=2, zmin=0.1, zmax=1, method="quadratic")),
    ("unknown-unit", dict(rmin=1, rmax=2, zmin=0.1, zmax=1, unit="lightyear")),
    ("unknown-cosmology", dict(rmin=1, rmax=2, zmin=0.1, zmax=1, cosmology="Planck99")),
    ("cosmology-wrong-type", dict(rmin=1, rmax=2, zmin=0.1, zmax=1, cosmology=42)),
    ("no-binning", dict(rmin=1, rmax=2)),
    ("only-zmin", dict(rmin=1, rmax=2, zmin=0.1)),
    ("only-zmax", dict(rmin=1, rmax=2, zmax=0.1)),
    ("zmin>zmax", dict(rmin=1, rmax=2, zmin=1.0, zmax=0.5)),
    ("zmin==zmax", dict(rmin=1, rmax=2, zmin=0.5, zmax=0.5)),
    ("unknown-closed", dict(rmin=1, rmax=2, zmin=0.1, zmax=1, closed="both")),
    ("method-custom-without-edges", dict(rmin=1, rmax=2, zmin=0.1, zmax=1, method="custom")),
]


class C15(Check):
    id = "C15"
    level = "exploration"
    rule = (
        "seeded parameter dictionaries over methods x closed x units x {1..3 scales} x cosmologies {default, named, "
        "CustomCosmology} x {generated, custom edges} x rweight/resolution x num_bins {1,2,5,30}; each is built with "
        "Configuration.create, judged against an astropy-only oracle (edge count, exact zmin/zmax, uniform spacing in "
        "z / comoving distance / ln(1+z), angles r/D(z) at 3 redshifts), then modified with 4 seeded single/multi "
        "parameter changes and compared with create(merged parameters) through a description (scales dict, method, "
        "closed, edge bytes, cosmology) and ==; plus the invalid-parameter table. non-trivial = configuration built and "
        ">= 1 modification compared; distinct = parameter hash"
        ' Further classes: curved/custom cosmologies, numpy-typed and single-precision parameters, sub-configuration modify, parameters kept, from_dict twice from one dictionary, two-step modifications.'
    )
    assumptions = [
        "the generated and the custom binning parameter groups are exclusive when merging (setting edges drops "
        "zmin/zmax/num_bins/method and vice versa), as Configuration.to_dict() represents them",
        "modifications of a custom-edges configuration that set only part of zmin/zmax are not generated (undefined)",
    ]
    floor_nontrivial = 30
    required_counters = ("configs_built", "modifications_compared", "angle_evals", "invalid_sets_tried")
    shards = (8, 16)
    budget = (300, 500)

    def cases(self, tier, seed):
        n = 1200 if tier == "quick" else 24000
        for i in range(n):
            yield dict(kind="config", seed=seed * 100019 + i)
        for name, _ in INVALID:
            yield dict(kind="invalid", name=name)

    def execute(self, case):
        warnings.simplefilter("ignore")
        from yaw import Configuration
        from yaw.config.base import ConfigError

        out = []

        def bad(mech, detail):
            out.append(result(VIOLATED, mechanism=mech, detail=detail, nontrivial=False))

        if case["kind"] == "invalid":
            params = dict(INVALID)[case["name"]]
            try:
                Configuration.create(**params)
                bad(f"invalid-accepted:{case['name']}", dict(params=params))
            except (ConfigError, ValueError, TypeError):
                pass
            except Exception as e:
                # any exception rejects the parameters; an internal error type is still a rejection
                out.append(result(HELD, cls="invalid", counters=dict(invalid_rejected_with_other=1),
                                  sample=dict(case=case, raised=type(e).__name__)))
            out.append(result(HELD, cls="invalid", counters=dict(invalid_sets_tried=1), key=f"invalid-{case['name']}"))
            return out

        rng = np.random.default_rng([case["seed"], 15])
        p = gen_params(rng)
        cosmo = resolve_cosmology(p.get("cosmology"))
        nt = [True, False, False, "f4"][case_bits(case, "numpy-types") % 4]
        if nt == "f4":
            for k in ("zmin", "zmax"):
                if isinstance(p.get(k), float):
                    p[k] = float(np.float32(p[k]))  # the value a float32 holds, so that the description stays exact
            if "zmin" in p and not p["zmin"] < p["zmax"]:
                nt = False
        try:
            cfg = Configuration.create(**realise(p, numpy_types=nt))
        except Exception as e:
            bad(f"create:raises-{type(e).__name__}:{p.get('method', 'custom')}:{'custom-cosmo' if str(p.get('cosmology', '')).startswith('custom') else ('unnamed-cosmo' if str(p.get('cosmology', '')).startswith('flcdm') else 'named-cosmo')}",
                dict(params=p, error=f"{type(e).__name__}: {e}"))
            return out
        counters = dict(configs_built=1)

        r = expected_edges_ok(p, cfg.binning.edges, cosmo)
        if r:
            bad(r[0], dict(params=p, **r[1]))
        if str(cfg.binning.closed) != p.get("closed", "right"):
            bad("closed:lost", dict(params=p))
        if cfg.binning.num_bins != len(cfg.binning.edges) - 1 or cfg.binning.zmin != cfg.binning.edges[0]:
            bad("binning:accessors", dict(params=p))
        # a configuration carries the parameters it was given (None where nothing was given)
        for key in ("rweight", "resolution"):
            got_v, want_v = getattr(cfg.scales, key), p.get(key)
            if (got_v is None) != (want_v is None) or (want_v is not None and float(got_v) != float(want_v)):
                bad(f"create:parameter-not-kept:{key}", dict(params=p, got=got_v))
        if str(cfg.scales.unit) != p["unit"]:
            bad("create:parameter-not-kept:unit", dict(params=p, got=str(cfg.scales.unit)))
        # dictionary form: building from it is repeatable and leaves the dictionary alone
        if not str(p.get("cosmology", "")).startswith(("custom", "flcdm")):
            import copy as _copy

            try:
                d = cfg.to_dict()
                frozen = _copy.deepcopy(d)
                first = Configuration.from_dict(d)
                second = Configuration.from_dict(d)
                if d != frozen:
                    bad("from_dict:modifies-its-argument", dict(params=p, before=frozen, after=d))
                if not (first == cfg and second == cfg and describe(second) == describe(cfg)):
                    bad("from_dict:second-build-from-the-same-dict-differs", dict(params=p, first=describe(first), second=describe(second)))
            except Exception as e:
                bad(f"from_dict:raises-{type(e).__name__}", dict(params=p, error=str(e)[:200]))

        # angles
        zs = [float(cfg.binning.binning.mids[0]), float(cfg.binning.binning.mids[-1]), 0.75]
        for z in zs:
            got_min, got_max = cfg.scales.scales.get_angle_radian(z, cosmology=cfg.cosmology)
            want_min, want_max = expected_angles(p, z, cosmo)
            counters["angle_evals"] = counters.get("angle_evals", 0) + 1
            if not (np.allclose(got_min, want_min, rtol=1e-12, atol=0) and np.allclose(got_max, want_max, rtol=1e-12, atol=0)
                    and np.shape(got_min) == np.shape(want_min)):
                bad(f"angle:wrong:{p['unit']}", dict(params=p, z=z, got=[np.asarray(got_min).tolist(), np.asarray(got_max).tolist()],
                                                     want=[want_min.tolist(), want_max.tolist()]))
                break
        # the same scales object asked for another cosmology afterwards (and the first one again)
        import astropy.cosmology as _ac

        for other in (_ac.WMAP5, resolve_cosmology("flcdm:60.0:0.4"), cosmo):
            z = zs[0]
            got_min, got_max = cfg.scales.scales.get_angle_radian(z, cosmology=other)
            want_min, want_max = expected_angles(p, z, other)
            counters["angle_evals"] = counters.get("angle_evals", 0) + 1
            if not (np.allclose(got_min, want_min, rtol=1e-12, atol=0) and np.allclose(got_max, want_max, rtol=1e-12, atol=0)):
                bad(f"angle:wrong-after-other-cosmology:{p['unit']}", dict(params=p, z=z))
                break
        if cfg.scales.num_scales != len(np.atleast_1d(p["rmin"])):
            bad("scales:num_scales", dict(params=p))

        # equal parameters compare equal
        try:
            twin = Configuration.create(**realise(p))
            if not (cfg == twin):
                bad("eq:equal-params-unequal", dict(params=p))
            if cfg != twin:
                bad("eq:ne-inconsistent", dict(params=p))
        except Exception as e:
            bad(f"eq:raises-{type(e).__name__}", dict(params=p, error=str(e)))

        # immutability
        before = describe(cfg)
        for attr, val in (("scales", None), ("binning", None), ("cosmology", None), ("max_workers", 3)):
            try:
                setattr(cfg, attr, val)
                bad("immutable:assignment-accepted", dict(attr=attr))
            except AttributeError:
                pass
        for sub, attr in ((cfg.scales, "rweight"), (cfg.binning, "method")):
            try:
                setattr(sub, attr, None)
                bad("immutable:assignment-accepted", dict(attr=attr))
            except AttributeError:
                pass

        # modifications
        for _ in range(4):
            delta = gen_delta(rng, p)
            merged = merge(p, delta)
            try:
                want = Configuration.create(**realise(merged))
            except Exception as e:
                want = e
            try:
                got = cfg.modify(**realise(delta, numpy_types=case_bits(case, "numpy-delta") % 3 == 0))
            except Exception as e:
                got = e
            counters["modifications_compared"] = counters.get("modifications_compared", 0) + 1
            tag = ("custom" if "edges" in p else p.get("method", "linear")) + "/" + "+".join(sorted(delta)) or "nothing"
            if isinstance(want, Exception):
                if not isinstance(got, Exception):
                    bad("modify:accepts-what-create-rejects", dict(params=p, delta=delta, create_error=repr(want)))
                continue
            if isinstance(got, Exception):
                mech_tag = "custom-edges" if "edges" in p else "generated"
                bad(f"modify:raises-{type(got).__name__}:{mech_tag}:{'cosmology' if 'cosmology' in delta else 'other'}",
                    dict(params=p, delta=delta, error=f"{type(got).__name__}: {got}"))
                continue
            dg, dw = describe(got), describe(want)
            serialisable = all(not str(x.get("cosmology", "")).startswith(("custom", "flcdm")) for x in (merged,))
            if serialisable:
                try:
                    if got.to_dict() != want.to_dict():
                        bad("modify:to_dict-differs-from-create", dict(params=p, delta=delta, got=got.to_dict(), want=want.to_dict()))
                except Exception as e:
                    bad(f"to_dict:raises-{type(e).__name__}", dict(params=p, delta=delta, error=str(e)))
            if dg != dw:
                diff = [k for k in dg if dg[k] != dw[k]]
                sig = "+".join(diff)
                if diff == ["edges"]:
                    ge, we = got.binning.edges, want.binning.edges
                    maxdev = float(np.abs(ge - we).max()) if ge.shape == we.shape else None
                    noncosmo = p.get("cosmology") not in (None, "Planck15") or "cosmology" in delta
                    sig = f"edges:{want.binning.method}:{'nondefault-cosmology' if noncosmo else 'default-cosmology'}"
                    detail = dict(params=p, delta=delta, maxdev=maxdev)
                else:
                    detail = dict(params=p, delta=delta, got={k: dg[k] for k in diff if k != 'edges'},
                                  want={k: dw[k] for k in diff if k != 'edges'})
                bad(f"modify:differs-from-create:{sig}", detail)
            else:
                try:
                    if not (got == want):
                        bad("modify:eq-false-though-identical", dict(params=p, delta=delta))
                except Exception as e:
                    bad(f"eq:raises-{type(e).__name__}", dict(params=p, error=str(e)))
            # the sub-configurations have the same documented modify(): with the default cosmology, modifying the
            # binning / the scales alone gives the binning / the scales of the configuration built from the merged parameters
            default_cosmo = p.get("cosmology") in (None, "Planck15") and "cosmology" not in delta
            bkeys = {"zmin", "zmax", "num_bins", "method", "edges", "closed"}
            skeys = {"rmin", "rmax", "unit", "rweight", "resolution"}
            if default_cosmo and delta and set(delta) <= bkeys:
                counters["sub_config_modifications"] = counters.get("sub_config_modifications", 0) + 1
                try:
                    sub = cfg.binning.modify(**realise(delta))
                    if not (np.array_equal(sub.edges, want.binning.edges) and str(sub.closed) == str(want.binning.closed)
                            and str(sub.method) == str(want.binning.method) and sub == want.binning):
                        bad("modify:binning-sub-config-differs-from-create", dict(params=p, delta=delta))
                except Exception as e:
                    bad(f"modify:binning-sub-config-raises-{type(e).__name__}:{want.binning.method}", dict(params=p, delta=delta, error=str(e)[:200]))
            if delta and set(delta) <= skeys:
                counters["sub_config_modifications"] = counters.get("sub_config_modifications", 0) + 1
                try:
                    sub = cfg.scales.modify(**realise(delta))
                    if not (sub == want.scales and sub.to_dict() == want.scales.to_dict()):
                        bad("modify:scales-sub-config-differs-from-create", dict(params=p, delta=delta))
                except Exception as e:
                    bad(f"modify:scales-sub-config-raises-{type(e).__name__}", dict(params=p, delta=delta, error=str(e)[:200]))
            if len(delta) >= 2 and set(delta) <= skeys | {"closed", "max_workers"} and not isinstance(got, Exception):
                # the same modification in two steps (either order) ends at the same configuration
                keys = sorted(delta)
                groups = [("rmin", "rmax")]
                first_keys = [k for k in keys if k in ("rmin", "rmax", "resolution")] or keys[:1]
                rest_keys = [k for k in keys if k not in first_keys]
                if rest_keys:
                    for order in ((first_keys, rest_keys), (rest_keys, first_keys)):
                        try:
                            two = cfg.modify(**realise({k: delta[k] for k in order[0]})).modify(**realise({k: delta[k] for k in order[1]}))
                            if two.to_dict() != got.to_dict():
                                bad("modify:two-steps-differ-from-one", dict(params=p, delta=delta, order=[list(o) for o in order],
                                                                             two=two.to_dict()["scales"], one=got.to_dict()["scales"]))
                                break
                        except Exception:
                            pass  # an intermediate state may be invalid on its own (e.g. rmin alone above the old rmax)
                _ = groups
            if describe(cfg) != before:
                bad("modify:mutates-original", dict(params=p, delta=delta))
            # structural equality: a modification that changed scales, edges, closed side or
            # cosmology must not compare equal to the original (max_workers is not part of ==)
            changed = [k for k in ("scales", "edges", "closed", "cosmology") if dg[k] != before[k]]
            if dg["cosmology"].startswith("custom") and before["cosmology"].startswith("custom") and "cosmology" in changed:
                changed.remove("cosmology")  # two custom cosmologies always compare equal (documented)
            if changed:
                try:
                    if got == cfg or not (got != cfg):
                        bad(f"eq:different-params-equal:{'+'.join(changed)}", dict(params=p, delta=delta))
                except Exception as e:
                    bad(f"eq:raises-{type(e).__name__}", dict(params=p, error=str(e)))

        out.append(result(HELD, cls=("custom" if "edges" in p else p["method"]) + "/" + p["unit"],
                          counters=counters, nontrivial=counters.get("modifications_compared", 0) > 0,
                          sample=dict(params=p)))
        return out


CHECK = C15()
