"""C12 — patch metadata describe the patch, and patch i belongs to centre i.

Invariant monitor on every catalog returned by the real constructors (all three
patch modes, reopened catalogs) plus the refusal test of the measurement guard."""

from __future__ import annotations

import warnings

import numpy as np

from engines import contracts
from oracles import sphere
from vlib import cats, gen
from vlib.core import case_bits, HELD, VIOLATED, Check, Scratch, result


def check_catalog_meta(cat, bad, counters, tag):
    """Metadata invariants of every patch against the records on disk."""
    for pid in cat:
        patch = cat[pid]
        data = patch.load_data()
        meta = patch.meta
        counters["patches_checked"] = counters.get("patches_checked", 0) + 1
        if meta.num_records != len(data):
            bad("meta:num_records-wrong", dict(tag=tag, patch=pid, got=meta.num_records, want=len(data)))
        w = data["weights"] if "weights" in data.dtype.names else np.ones(len(data))
        if abs(meta.sum_weights - w.sum()) > 1e-12 * np.abs(w).sum():
            bad("meta:sum_weights-wrong", dict(tag=tag, patch=pid, got=meta.sum_weights, want=float(w.sum())))
        c = meta.center
        sep = sphere.separation(data["ra"], data["dec"], c.ra[0], c.dec[0]).astype(float)
        rad = float(meta.radius.data[0])
        if len(sep) and sep.max() > rad * (1 + 1e-12) + 1e-14:
            bad("meta:record-outside-radius", dict(tag=tag, patch=pid, max_sep=float(sep.max()), radius=rad))
        # the radius is the *smallest* enclosing one around the centre (max distance), not an overestimate
        if len(sep) and rad > sep.max() * (1 + 1e-9) + 3e-8:
            bad("meta:radius-overestimated", dict(tag=tag, patch=pid, max_sep=float(sep.max()), radius=rad))
    n = cat.get_num_records()
    if tuple(n) != tuple(cat[p].meta.num_records for p in cat):
        bad("catalog:get_num_records-order", dict(tag=tag))
    if len(cat.get_centers()) != len(cat) or len(cat.get_radii()) != len(cat) or len(cat.get_sum_weights()) != len(cat):
        bad("catalog:accessor-lengths", dict(tag=tag))


class C12(Check):
    id = "C12"
    level = "exploration"
    rule = (
        "seeded catalogs in all three patch modes (given centres in random/reversed order, weighted or not, "
        "single-object patches, reopened from cache with and without meta.yml; patch index column; generated centres): "
        "per patch num_records, sum_weights, containment of every record within radius of centre (atan2 separation), "
        "tightness of the radius; for given centres keys == 0..N-1, reported centre i == given centre i and every record of "
        "patch i is nearest to reported centre i; refusal test: measurements on catalogs with different key sets or centres "
        "shifted by f x radius (f in 0, 0.2, 1.5, 3, 10) must raise for f > 1 and must not for f = 0. "
        "non-trivial = >= 2 patches; distinct = case parameters + seed"
        ' Further classes: zero weights, an ignored index column next to given centres, caches below patch-like directory names, a copy with shifted time stamps, reopening after build_trees, random catalogs with generated centres, refusal test with large scales.'
    )
    assumptions = ["objects closer than 1e-9 rad to a patch boundary are not generated (margin filter)"]
    floor_nontrivial = 30
    required_counters = ("patches_checked", "alignment_checks", "refusal_tests", "records_nearest_checked")
    shards = (12, 16)
    budget = (300, 400)

    def cases(self, tier, seed):
        q = tier == "quick"
        for i in range(240 if q else 6000):
            yield dict(kind="centres", seed=seed * 100003 + i, order=["given", "reversed", "shuffled"][i % 3],
                       weighted=bool(i % 2), single=bool(i % 5 == 0), workers=1)
        for i in range(18 if q else 400):
            yield dict(kind="empty_centre", seed=seed * 1021 + i, where=["first", "middle", "last"][i % 3], workers=1)
        for i in range(30 if q else 800):
            yield dict(kind="index", seed=seed * 1009 + i, weighted=bool(i % 2))
        for i in range(12 if q else 200):
            yield dict(kind="generated", seed=seed * 1013 + i)
        for i in range(96 if q else 2400):
            yield dict(kind="refusal", seed=seed * 1019 + i, f=[0.0, 0.2, 1.5, 3.0, 10.0, "keys", "keys_same_len", "single_object"][i % 8])

    def setup_worker(self):
        warnings.simplefilter("ignore")
        contracts.install()

    def execute(self, case):
        out = []
        counters = {}

        def bad(mech, detail):
            out.append(result(VIOLATED, mechanism=mech, detail=dict(case=case, **detail), nontrivial=False))

        rng = np.random.default_rng([case["seed"], 12])
        nontrivial = True
        with Scratch("c12") as tmp:
            if case_bits(case, "patch-like-parent") % 3 == 0:
                # the cache lives below a directory whose name looks like a patch directory
                tmp = tmp / ["patch_16", "run_patch_6", "npatch_006"][case_bits(case, "parent-name") % 3] / "caches"
                tmp.mkdir(parents=True)
            nontrivial = getattr(self, "_" + case["kind"])(case, rng, tmp, bad, counters)
        out.append(result(HELD, cls=case["kind"], counters=counters, nontrivial=bool(nontrivial),
                          sample=dict(case=case, counters=counters)))
        return out

    # ------------------------------------------------------------------
    def _points(self, rng, centres, r, n_each, single=False):
        xyz, _ = cats.points_around(rng, centres, n_each, r)
        xyz = np.concatenate([xyz, centres + rng.normal(0, 1e-5, centres.shape)])
        xyz /= np.linalg.norm(xyz, axis=1)[:, None]
        pid, margin = cats.nearest_centre(xyz, centres)
        keep = margin > 1e-8
        xyz, pid = xyz[keep], pid[keep]
        if single and len(centres) > 1:  # make patch 0 a single-object patch
            first = np.flatnonzero(pid == 0)[0]
            drop = (pid == 0)
            drop[first] = False
            xyz, pid = xyz[~drop], pid[~drop]
        return xyz, pid

    def _centres(self, case, rng, tmp, bad, counters):
        from yaw import Catalog

        P = int(rng.integers(2, 9))
        r = np.deg2rad(rng.uniform(0.2, 2.0))
        where = str(rng.choice(["random", "pole", "wrap"]))
        centres = cats.layout_centres(rng, P, r * rng.uniform(1.0, 2.5), where)
        if case["order"] == "reversed":
            centres = centres[::-1].copy()
        elif case["order"] == "shuffled":
            centres = centres[rng.permutation(P)]
        xyz, pid = self._points(rng, centres, r, rng.integers(1, 40, P), case["single"])
        order = rng.permutation(len(xyz))
        xyz, pid = xyz[order], pid[order]
        ra, dec = gen.xyz_to_radec(xyz)
        w = rng.uniform(0.1, 5, len(ra)) if case["weighted"] else None
        if w is not None and case_bits(case, "zero-weights") % 3 == 0:
            w[rng.random(len(w)) < 0.4] = 0.0  # masked objects keep their place in the patch geometry
            for p_ in range(P):  # ... but no patch is masked completely (a zero-weight mean has no direction)
                if w[pid == p_].sum() == 0:
                    w[np.flatnonzero(pid == p_)[0]] = 1.0
        cobj = cats.coords_obj(centres)
        given = cobj.data.copy()
        extra = {}
        if case_bits(case, "index-column-too") % 3 == 0:
            # a patch-index column given together with the centres is documented to be ignored
            extra = dict(patch=rng.integers(0, P + 2, len(ra)), kw=dict(patch_name="patch"))
        cat = cats.create(tmp / "c", cats.table(ra, dec, w=w, patch=extra.get("patch")), centers=cobj,
                          chunksize=int(rng.choice([7, 50, 10**6])), **extra.get("kw", {}))
        # the caller goes on using (and modifying) its own centre array: the catalog must not change with it
        cobj.data += 0.25
        # a copy of the cache made by a tool that does not preserve time stamps (data files newer than meta.yml)
        import os
        import shutil
        import time

        shutil.copytree(tmp / "c", tmp / "c-copy")
        now = time.time()
        for f in (tmp / "c-copy").glob("patch_*/meta.yml"):
            os.utime(f, (now - 3600, now - 3600))
        for f in (tmp / "c-copy").glob("patch_*/data.bin"):
            os.utime(f, (now, now))
        for tag, c in (("created", cat), ("reopened", Catalog(tmp / "c", max_workers=1)),
                       ("reopened-copy", Catalog(tmp / "c-copy", max_workers=1))):
            check_catalog_meta(c, bad, counters, tag)
            counters["alignment_checks"] = counters.get("alignment_checks", 0) + 1
            if list(c.keys()) != list(range(P)):
                bad("alignment:keys-not-0..N-1", dict(tag=tag, keys=list(c.keys()), P=P))
                continue
            got = c.get_centers().data
            if got.shape != given.shape or not np.allclose(got, given, rtol=0, atol=1e-15):
                bad("alignment:reported-centres-differ-from-given", dict(tag=tag, got=got.tolist(), want=given.tolist()))
            # the reported centres reproduce the partition
            cen_xyz = gen.radec_to_xyz(got[:, 0], got[:, 1])
            for p in c:
                d = c[p].load_data()
                pts = gen.radec_to_xyz(d["ra"], d["dec"])
                nearest, margin = cats.nearest_centre(pts, cen_xyz)
                counters["records_nearest_checked"] = counters.get("records_nearest_checked", 0) + len(d)
                wrong = (nearest != p) & (margin > 1e-9)
                if wrong.any():
                    bad("alignment:record-not-nearest-to-its-centre", dict(tag=tag, patch=p, n_wrong=int(wrong.sum())))
                    break
            # every input record is in the patch of its nearest given centre
            for p in c:
                if c[p].meta.num_records != int((pid == p).sum()):
                    bad("alignment:patch-size-differs-from-nearest-centre-partition", dict(tag=tag, patch=p,
                        got=c[p].meta.num_records, want=int((pid == p).sum())))
                    break
        cobj.data -= 0.25
        # using the catalog (trees are built in its cache) does not change what a later reopening reports
        cat.build_trees(None, max_workers=1)
        after_use = Catalog(tmp / "c", max_workers=1)
        if not np.allclose(after_use.get_centers().data, given, rtol=0, atol=1e-15):
            bad("alignment:reported-centres-change-after-trees-were-built", dict(got=after_use.get_centers().data.tolist(), want=given.tolist()))
        check_catalog_meta(after_use, bad, counters, "reopened-after-build_trees")
        # catalog as patch_centers: second catalog inherits exactly these centres
        xyz2, pid2 = self._points(rng, centres, r * 0.7, rng.integers(1, 20, P))
        ra2, dec2 = gen.xyz_to_radec(xyz2)
        cat2 = cats.create(tmp / "c2", cats.table(ra2, dec2), centers=cat)
        if not np.array_equal(cat2.get_centers().data, cat.get_centers().data):
            bad("alignment:centres-from-catalog-differ", {})
        check_catalog_meta(cat2, bad, counters, "from-catalog-centres")
        # metadata recomputed when meta.yml is missing must agree
        for p in cat:
            (cat[p].cache_path / "meta.yml").unlink()
        again = Catalog(tmp / "c", max_workers=1)
        check_catalog_meta(again, bad, counters, "meta-recomputed")
        for p in cat:
            a, b = cat[p].meta, again[p].meta
            if a.num_records != b.num_records or a.sum_weights != b.sum_weights:
                bad("meta:recomputed-differs", dict(patch=p))
        return P >= 2

    def _empty_centre(self, case, rng, tmp, bad, counters):
        """A centre that attracts no object: creation must raise (judged by C09); *if* a catalog
        is returned it must still be aligned with the given centres."""
        P = int(rng.integers(3, 7))
        r = np.deg2rad(0.5)
        centres = cats.layout_centres(rng, P, r * 3.0)
        k = {"first": 0, "middle": P // 2, "last": P - 1}[case["where"]]
        xyz, pid = self._points(rng, centres, r, rng.integers(3, 30, P))
        keep = pid != k
        ra, dec = gen.xyz_to_radec(xyz[keep])
        cobj = cats.coords_obj(centres)
        try:
            cat = cats.create(tmp / "c", cats.table(ra, dec), centers=cobj)
        except Exception:
            counters["empty_centre_raised"] = counters.get("empty_centre_raised", 0) + 1
            return True
        counters["empty_centre_returned"] = counters.get("empty_centre_returned", 0) + 1
        counters["alignment_checks"] = counters.get("alignment_checks", 0) + 1
        given = cobj.data
        for p in cat:
            got = cat[p].meta.center.data[0]
            if p >= P or not np.allclose(got, given[p], rtol=0, atol=1e-15):
                bad("alignment:centre-of-patch-i-is-not-given-centre-i:empty-centre", dict(patch=p, empty=k, keys=list(cat.keys())))
                break
        check_catalog_meta(cat, bad, counters, "empty-centre")
        return True

    def _index(self, case, rng, tmp, bad, counters):
        from yaw import Catalog

        P = int(rng.integers(1, 9))
        r = np.deg2rad(rng.uniform(0.2, 2.0))
        centres = cats.layout_centres(rng, P, r * 2.0, str(rng.choice(["random", "pole", "wrap"])))
        xyz, pid = self._points(rng, centres, r, rng.integers(1, 40, P))
        order = rng.permutation(len(xyz))
        xyz, pid = xyz[order], pid[order]
        ra, dec = gen.xyz_to_radec(xyz)
        w = rng.uniform(0.1, 5, len(ra)) if case["weighted"] else None
        cat = cats.create(tmp / "c", cats.table(ra, dec, w=w, patch=pid), chunksize=int(rng.choice([5, 64, 10**6])))
        for tag, c in (("created", cat), ("reopened", Catalog(tmp / "c", max_workers=1))):
            check_catalog_meta(c, bad, counters, tag)
            counters["alignment_checks"] = counters.get("alignment_checks", 0) + 1
            if list(c.keys()) != list(range(P)):
                bad("alignment:keys-not-0..N-1", dict(tag=tag, keys=list(c.keys())))
                continue
            for p in c:
                if c[p].meta.num_records != int((pid == p).sum()):
                    bad("alignment:patch-size-differs-from-index-column", dict(tag=tag, patch=p))
                # centre = (weighted) mean direction
                sel = pid == p
                refv, norm = sphere.mean_direction(ra[sel], dec[sel], None if w is None else w[sel])
                cm = c[p].meta.center
                gv = sphere.to_xyz(cm.ra, cm.dec)[0]
                if float(norm) > 1e-3 and float(sphere.separation_xyz(gv, refv)) > 1e-12 + 3e-8:
                    bad("meta:centre-not-mean", dict(tag=tag, patch=p, sep=float(sphere.separation_xyz(gv, refv))))
        return P >= 2

    def _generated(self, case, rng, tmp, bad, counters):
        P = int(rng.integers(2, 6))
        r = np.deg2rad(3.0)
        base = gen.rand_unit(rng, 1)[0]
        xyz = gen.cap_points(rng, base, r, int(rng.integers(300, 800)))
        ra, dec = gen.xyz_to_radec(xyz)
        if case["seed"] % 2:
            # random catalog with generated centres: same contract
            from yaw import Catalog
            from yaw.randoms import BoxRandoms

            n_r = int(rng.integers(400, 1200))
            cat = Catalog.from_random(tmp / "c", BoxRandoms(20.0, 26.0, -3.0, 3.0, seed=int(case["seed"] % 1000)), n_r,
                                      patch_num=P, probe_size=max(60, n_r // 5), max_workers=1)  # centres from a sparse probe
            ra = np.zeros(n_r)
        else:
            cat = cats.create(tmp / "c", cats.table(ra, dec), patch_num=P, probe_size=len(ra) if case["seed"] % 4 else max(60, len(ra) // 5))
        check_catalog_meta(cat, bad, counters, "generated")
        counters["alignment_checks"] = counters.get("alignment_checks", 0) + 1
        if list(cat.keys()) != list(range(P)):
            bad("alignment:keys-not-0..N-1:generated", dict(keys=list(cat.keys())))
            return True
        got = cat.get_centers().data
        cen_xyz = gen.radec_to_xyz(got[:, 0], got[:, 1])
        for p in cat:
            d = cat[p].load_data()
            pts = gen.radec_to_xyz(d["ra"], d["dec"])
            nearest, margin = cats.nearest_centre(pts, cen_xyz)
            counters["records_nearest_checked"] = counters.get("records_nearest_checked", 0) + len(d)
            wrong = (nearest != p) & (margin > 1e-9)
            if wrong.any():
                bad("alignment:record-not-nearest-to-its-centre:generated", dict(patch=p, n_wrong=int(wrong.sum())))
        if sum(cat.get_num_records()) != len(ra):
            bad("alignment:records-lost:generated", {})
        return True

    def _refusal(self, case, rng, tmp, bad, counters):
        import yaw
        from yaw import Configuration
        from yaw.catalog.catalog import InconsistentPatchesError

        P = int(rng.integers(2, 6))
        r = np.deg2rad(rng.uniform(0.3, 1.0))
        centres = cats.layout_centres(rng, P, r * 12.0)  # far apart: shifted copies cannot swap roles
        f = case["f"]
        cfg = Configuration.create(rmin=0.01, rmax=0.2, unit="deg", zmin=0.1, zmax=1.0, num_bins=2)
        if case_bits(case, "large-scales") % 2 == 0:
            # the refusal is about the catalogs, whatever scales are measured: here scales of several patch radii
            cfg = Configuration.create(rmin=0.01, rmax=float(np.rad2deg(r)) * 4.0, unit="deg", zmin=0.1, zmax=1.0, num_bins=2)

        def mk(name, cen, n, z):
            xyz, _ = cats.points_around(rng, cen, n, r)
            # a point on the rim so that the patch radius is r (to 1e-3)
            rim = []
            for c in cen:  # the farthest of 200 cap points: the patch radius is r to ~1e-2
                cand = gen.cap_points(rng, c, r, 200)
                rim.append(cand[np.argmin(cand @ c)])
            rim = np.array(rim)
            xyz = np.concatenate([xyz, cen, rim])
            ra, dec = gen.xyz_to_radec(xyz)
            return cats.create(tmp / name, cats.table(ra, dec, z=rng.uniform(0.1, 1.0, len(ra)) if z else None),
                               centers=cats.coords_obj(cen))

        if f == "single_object":
            # index-column mode: the largest catalog has a single-object patch (radius ~ 0, centre
            # taken from the data); its counterpart in the other catalogs sits several degrees away
            def mks(name, n_big, single_at, z):
                parts, ids = [], []
                for k in range(P - 1):
                    parts.append(gen.cap_points(rng, centres[k], r, n_big))
                    ids.append(np.full(n_big, k))
                parts.append(np.atleast_2d(single_at) if single_at.ndim == 1 else single_at)
                ids.append(np.full(len(parts[-1]), P - 1))
                xyz = np.concatenate(parts)
                ra, dec = gen.xyz_to_radec(xyz)
                return cats.create(tmp / name, cats.table(ra, dec, z=rng.uniform(0.1, 1.0, len(ra)) if z else None,
                                                          patch=np.concatenate(ids)))

            displaced = gen.cap_points(rng, gen.cap_points(rng, centres[P - 1], np.deg2rad(8.0), 1)[0], r * 0.1, 10)
            displaced = displaced[np.arccos(np.clip(displaced @ centres[P - 1], -1, 1)) > np.deg2rad(1.0)]
            if len(displaced) == 0:
                return False
            ref = mks("ref", 60, centres[P - 1], True)
            unk = mks("unk", 30, displaced, False)
            ur = mks("ur", 30, displaced, False)
            counters["refusal_tests"] = counters.get("refusal_tests", 0) + 1
            try:
                yaw.crosscorrelate(cfg, ref, unk, unk_rand=ur, max_workers=1)
                bad("refusal:misaligned-centres-accepted:single-object-patch", dict(P=P))
            except InconsistentPatchesError:
                pass
            except Exception as e:
                bad(f"refusal:raises-other-{type(e).__name__}:single-object", dict(error=str(e)[:200]))
            return True
        if f == "keys_same_len":
            # same number of patches, different index sets (index column with a gap)
            def mki(name, ids, z):
                cen = centres[: len(ids)]
                xyz, src = cats.points_around(rng, cen, 20, r)
                ra, dec = gen.xyz_to_radec(xyz)
                return cats.create(tmp / name, cats.table(ra, dec, z=rng.uniform(0.1, 1.0, len(ra)) if z else None,
                                                          patch=np.asarray(ids)[src]))

            ids = list(range(P))
            other = ids[:-1] + [P]
            ref, unk, ur = mki("ref", ids, True), mki("unk", other, False), mki("ur", other, False)
            counters["refusal_tests"] = counters.get("refusal_tests", 0) + 1
            try:
                yaw.crosscorrelate(cfg, ref, unk, unk_rand=ur, max_workers=1)
                bad("refusal:different-key-sets-accepted:same-length", dict(ref=ids, other=other))
            except InconsistentPatchesError:
                pass
            except Exception as e:
                bad(f"refusal:raises-other-{type(e).__name__}:same-length", dict(error=str(e)[:200]))
            return True
        ref = mk("ref", centres, 30, True)
        if f == "keys":
            other_c = centres[:-1] if rng.random() < 0.5 else np.concatenate([centres, -centres[:1]])
            expect_raise = True
        else:
            # shift every centre by f x (largest patch radius of the reference catalog)
            radius = float(ref.get_radii().data.max())
            R = gen.rotation_taking(centres[0], gen.cap_points(rng, centres[0], 1.0, 1)[0])
            axis = np.cross(centres[0], R @ centres[0])
            axis /= np.linalg.norm(axis)
            ang = f * radius
            K = np.array([[0, -axis[2], axis[1]], [axis[2], 0, -axis[0]], [-axis[1], axis[0], 0]])
            rot = np.eye(3) + np.sin(ang) * K + (1 - np.cos(ang)) * K @ K
            other_c = centres @ rot.T
            expect_raise = f > 1.0
        unk = mk("unk", other_c, 25, False)
        ur = mk("ur", other_c, 25, False)
        counters["refusal_tests"] = counters.get("refusal_tests", 0) + 1
        # distance between corresponding centres versus the radii, as the guard should see them
        try:
            yaw.crosscorrelate(cfg, ref, unk, unk_rand=ur, max_workers=1)
            raised = None
        except InconsistentPatchesError as e:
            raised = e
        except Exception as e:
            bad(f"refusal:raises-other-{type(e).__name__}", dict(error=str(e)[:200]))
            return True
        if expect_raise and raised is None:
            if f == "keys":
                bad("refusal:different-key-sets-accepted", dict(P=P, other=len(other_c)))
            else:
                d = ref.get_centers().distance(unk.get_centers()).data
                rr = np.maximum(ref.get_radii().data, unk.get_radii().data)
                if np.any(d > rr):
                    bad("refusal:misaligned-centres-accepted", dict(f=f, dist=d.tolist(), radii=rr.tolist()))
        if f == 0.0 and raised is not None:
            bad("refusal:aligned-catalogs-refused", dict(error=str(raised)))
        # same for autocorrelate (data vs random)
        if f != "keys" and f in (0.0, 3.0):
            rnd = mk("rnd", other_c, 25, True)
            try:
                yaw.autocorrelate(cfg, ref, rnd, max_workers=1)
                if f == 3.0:
                    bad("refusal:misaligned-centres-accepted:auto", dict(f=f))
            except InconsistentPatchesError as e:
                if f == 0.0:
                    bad("refusal:aligned-catalogs-refused:auto", dict(error=str(e)))
        return True


CHECK = C12()
