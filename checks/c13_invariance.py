"""C13 — results are invariant under rotations, row order, patch labels and
weight scale; raw pair counts are additive under splitting a catalog.

Metamorphic monitor: the original pipeline run is the oracle of the
transformed one (DESIGN §4 C13).  Cases are margin-filtered so that no discrete
decision (pair inside a scale, nearest centre, redshift bin) sits inside
rounding noise."""

from __future__ import annotations

import warnings

import numpy as np

from oracles.sphere import separation_f64
from vlib import cats, gen
from vlib.core import HELD, SKIPPED, VIOLATED, Check, Scratch, result, case_bits

TRANSFORMS = ["rotation", "rotation_to_pole", "rotation_across_ra0", "row_permutation", "centre_permutation",
              "weight_scale", "split", "rotation_pole_between"]


def close_rel(a, b, tol=1e-9):
    a, b = np.asarray(a, dtype=float), np.asarray(b, dtype=float)
    if a.shape != b.shape:
        return False
    scale = max(np.nanmax(np.abs(b), initial=0.0), np.nanmax(np.abs(a), initial=0.0), 1e-300)
    with np.errstate(all="ignore"):
        ok = np.abs(a - b) <= tol * scale
    return bool(np.all(ok | (np.isnan(a) & np.isnan(b)) | (np.isinf(a) & (a == b))))


class C13(Check):
    id = "C13"
    level = "exploration"
    rule = (
        "seeded small pipelines (3..6 patches, 4 catalogs of 60..250 objects, 2 angular scales, 2..4 redshift bins) run "
        "twice: original and transformed by {random SO(3) rotation, rotation taking a centre onto the pole, rotation "
        "moving the field across RA=0, row permutation of every input table, permutation of the centre list, weights of "
        "one catalog x {1e-12, 2e-10, 1e-3, 7, 1e6, 1e12}, two-way split of the reference sample}; CorrFunc.sample().data/.samples/.covariance "
        "and RedshiftData.from_corrfuncs are compared to 1e-9 of the largest entry (samples permuted with the patch "
        "labels; split: counts cell-wise additive). Cases with a pair within 1e-9 of a scale edge, a point within 1e-8 rad "
        "of a patch boundary or a redshift within 1e-9 of a bin edge are rejected and counted. "
        "non-trivial = correlation amplitudes finite and non-zero in >= 1 bin; distinct = (transformation, seed)"
        ' Further classes: rotation putting the pole between two compact patches, exactly repeated positions, a 70 000-record weighted patch, chunked inputs, weights spanning 9 decades in splits.'
    )
    assumptions = [
        "data and random catalogs are different samples",
        "n(z) compared only in bins where |w_ss| exceeds 1e-6 of its maximum",
    ]
    floor_nontrivial = 25
    required_counters = ("pipelines_compared", "arrays_compared")
    shards = (14, 16)
    budget = (300, 700)

    def cases(self, tier, seed):
        n = 252 if tier == "quick" else 7000
        for i in range(n):
            yield dict(seed=seed * 100003 + i, transform=TRANSFORMS[i % len(TRANSFORMS)])

    def setup_worker(self):
        warnings.simplefilter("ignore")

    def execute(self, case):
        import yaw
        from yaw import Configuration, RedshiftData

        rng = np.random.default_rng([case["seed"], 13])
        tr = case["transform"]
        out = []

        def bad(mech, detail):
            out.append(result(VIOLATED, mechanism=mech, detail=dict(case=case, **detail), nontrivial=False))

        P = int(rng.integers(3, 7))
        r = np.deg2rad(rng.uniform(0.4, 1.0))
        spacing = r * rng.uniform(1.2, 1.8)
        far = tr == "rotation_pole_between"
        if far:
            # compact patches far apart compared with their size, the largest scale just bridging the gap: the
            # linking length (radii + scale) is only slightly larger than the distance between the centres
            spacing = r / 0.3
        centres = cats.layout_centres(rng, P, spacing)
        nb = int(rng.integers(2, 5))
        edges = np.linspace(0.1, 1.0, nb + 1)
        th = np.deg2rad(np.array([[0.02, 0.3], [0.1, float(np.rad2deg(spacing)) * (0.6 if far else 0.9)]]))
        cfg = Configuration.create(rmin=np.rad2deg(th[:, 0]).tolist(), rmax=np.rad2deg(th[:, 1]).tolist(), unit="deg",
                                   edges=edges.tolist(), closed=str(rng.choice(["left", "right"])))
        th_edges = np.deg2rad(np.concatenate([np.asarray(cfg.scales.rmin, dtype=float).ravel(),
                                              np.asarray(cfg.scales.rmax, dtype=float).ravel()]))

        dup = case_bits(case, "duplicates") % 3 == 0

        def points(n_each, with_z, with_w):
            xyz, _ = cats.points_around(rng, centres, n_each, r)
            xyz = np.concatenate([xyz, centres + rng.normal(0, 1e-4, centres.shape)])
            xyz /= np.linalg.norm(xyz, axis=1)[:, None]
            if dup:  # exactly repeated positions (pixelised randoms, objects observed twice)
                k = len(xyz) // 4
                xyz[:k] = xyz[k:2 * k]
            pid, margin = cats.nearest_centre(xyz, centres)
            keep = margin > 1e-7
            xyz = xyz[keep]
            z = rng.uniform(0.12, 0.98, len(xyz)) if with_z else None
            if z is not None:  # keep redshifts away from bin edges
                d = np.min(np.abs(z[:, None] - edges[None, :]), axis=1)
                z = np.where(d < 1e-6, z + 1e-3, z)
            w = rng.uniform(0.5, 2.0, len(xyz)) if with_w else None
            return dict(xyz=xyz, z=z, w=w)

        tables = dict(
            ref=points(rng.integers(10, 40, P), True, bool(rng.random() < 0.6) or (tr == "split" and case_bits(case, "dynamic-range") % 2 == 0)),
            unk=points(rng.integers(10, 50, P), False, bool(rng.random() < 0.6)),
            rr=points(rng.integers(15, 50, P), True, False),
            ur=points(rng.integers(15, 50, P), False, False),
        )
        if tr == "split" and case_bits(case, "dynamic-range") % 2 == 0:
            # inverse-variance-like weights spanning many decades: every object counts, however light
            tables["ref"]["w"] = tables["ref"]["w"] * 10.0 ** rng.uniform(-5, 4, len(tables["ref"]["w"]))
        # margin filter on pair separations (all pairs that can be counted)
        def near_edge(a, b):
            ra1, d1 = gen.xyz_to_radec(a["xyz"])
            ra2, d2 = gen.xyz_to_radec(b["xyz"])
            S = separation_f64(ra1[:, None], d1[:, None], ra2[None, :], d2[None, :])
            for e in th_edges:
                if np.any(np.abs(S - e) <= 1e-9 * e):
                    return True
            return False

        pairs_used = [("ref", "unk"), ("ref", "ur"), ("rr", "unk"), ("rr", "ur"), ("ref", "ref"), ("ref", "rr"), ("rr", "rr")]
        if any(near_edge(tables[a], tables[b]) for a, b in pairs_used):
            return [result(SKIPPED, cls="rejected-margin", nontrivial=False, counters=dict(rejected_margin=1))]

        from_index = (tr.startswith("rotation") or tr == "row_permutation") and case_bits(case, "index") % 2 == 1
        # a patch with more records than any internal block size: 70000 further randoms in patch 0, sorted by
        # right ascension, with redshifts outside the binning (they enter the patch metadata, no pair count)
        big = from_index and tr == "row_permutation" and case_bits(case, "big") % 4 == 0
        if big:
            ex = gen.cap_points(rng, centres[0], r * 0.9, 70000)
            ex = ex[np.argsort(gen.xyz_to_radec(ex)[0])]
            tables["rr"]["extra"] = ex

        # half of the pipelines read their inputs in several chunks
        chunksize = 37 if case_bits(case, "chunked") % 2 == 0 else None

        def build(tmp, tag, tabs, cen):
            cobj = cats.coords_obj(cen)
            c = {}
            if from_index:
                # the largest catalog defines the patches through an index column (centres = mean
                # directions computed by the library); the others take their centres from it
                t = tabs["rr"]
                xyz_, z_, w_ = t["xyz"], t["z"], t["w"]
                if t.get("extra") is not None:
                    first = bool(t.get("extra_first"))
                    parts = [t["extra"], xyz_] if first else [xyz_, t["extra"]]
                    zex = np.full(len(t["extra"]), 5.0)
                    # the regular rows are weighted, the 70000 further ones carry the weight 1 exactly (a unit-weight
                    # sample concatenated with a weighted one)
                    wreg = 0.5 + (np.floor(np.abs(xyz_[:, 0]) * 1e6) % 7) / 4.0  # a property of the object, not of its row
                    wex = np.ones(len(t["extra"]))
                    w_ = np.concatenate([wex, wreg] if first else [wreg, wex])
                    xyz_ = np.concatenate(parts)
                    z_ = np.concatenate([zex, z_] if first else [z_, zex])
                ra, dec = gen.xyz_to_radec(xyz_)
                pid, _ = cats.nearest_centre(xyz_, cen)
                c["rr"] = cats.create(tmp / f"{tag}-rr", cats.table(ra, dec, w=w_, z=z_, patch=pid), chunksize=chunksize)
                cobj = c["rr"]
            for k, t in tabs.items():
                if k in c:
                    continue
                ra, dec = gen.xyz_to_radec(t["xyz"])
                c[k] = cats.create(tmp / f"{tag}-{k}", cats.table(ra, dec, w=t["w"], z=t["z"]), centers=cobj, chunksize=chunksize)
            return c

        def measure(c):
            cross = yaw.crosscorrelate(cfg, c["ref"], c["unk"], ref_rand=c["rr"], unk_rand=c["ur"], max_workers=1)
            auto = yaw.autocorrelate(cfg, c["ref"], c["rr"], count_rr=True, max_workers=1)
            return cross, auto

        # ---- transformed inputs --------------------------------------------------------------------
        t_tables = {k: dict(v) for k, v in tables.items()}
        t_centres = centres.copy()
        perm = None
        info = {}
        if tr.startswith("rotation"):
            if tr == "rotation":
                R = gen.random_rotation(rng)
            elif tr == "rotation_to_pole":
                R = gen.rotation_taking(centres[int(rng.integers(P))], np.array([0.0, 0.0, rng.choice([-1.0, 1.0])]))
            elif tr == "rotation_pole_between":
                # the pole ends up on the border between two neighbouring patches: they meet across the pole,
                # their right ascensions differ by about 180 degrees
                mid = centres[0] + centres[1]
                R = gen.rotation_taking(mid / np.linalg.norm(mid), np.array([0.0, 0.0, rng.choice([-1.0, 1.0])]))
            else:
                target = gen.radec_to_xyz(np.array([rng.normal(0, 1e-3) % (2 * np.pi)]), np.array([rng.uniform(-1.2, 1.2)]))[0]
                R = gen.rotation_taking(centres.mean(axis=0), target)
            for k in t_tables:
                t_tables[k]["xyz"] = tables[k]["xyz"] @ R.T
            t_centres = centres @ R.T
        elif tr == "row_permutation":
            for k in t_tables:
                o = rng.permutation(len(tables[k]["xyz"]))
                t_tables[k] = {kk: (None if vv is None else vv[o]) for kk, vv in tables[k].items() if kk != "extra"}
                if tables[k].get("extra") is not None:
                    t_tables[k]["extra"] = tables[k]["extra"][rng.permutation(len(tables[k]["extra"]))]
                    t_tables[k]["extra_first"] = True
        elif tr == "centre_permutation":
            perm = rng.permutation(P)
            while P > 1 and np.array_equal(perm, np.arange(P)):
                perm = rng.permutation(P)
            t_centres = centres[perm]
        elif tr == "weight_scale":
            which = str(rng.choice(["ref", "unk", "rr", "ur"]))
            s = float(rng.choice([1e-3, 7.0, 1e6, 2e-10, 1e-12, 1e12]))
            base = tables[which]["w"] if tables[which]["w"] is not None else np.ones(len(tables[which]["xyz"]))
            t_tables[which]["w"] = base * s
            if tables[which]["w"] is None:
                tables[which]["w"] = base  # explicit unit weights in the original for a like-for-like comparison
            info = dict(which=which, factor=s)

        with Scratch("c13") as tmp:
            orig = build(tmp, "o", tables, centres)
            cross_o, auto_o = measure(orig)
            if tr == "split":
                m = rng.random(len(tables["ref"]["xyz"])) < 0.5
                # both halves must keep every patch populated
                pid, _ = cats.nearest_centre(tables["ref"]["xyz"], centres)
                if any((m & (pid == p)).sum() == 0 or (~m & (pid == p)).sum() == 0 for p in range(P)):
                    return [result(SKIPPED, cls="rejected-split", nontrivial=False, counters=dict(rejected_split=1))]
                halves = []
                for sel, tag in ((m, "h1"), (~m, "h2")):
                    tt = dict(tables)
                    tt["ref"] = {kk: (None if vv is None else vv[sel]) for kk, vv in tables["ref"].items()}
                    c = build(tmp, tag, {"ref": tt["ref"]}, centres)
                    c.update({k: orig[k] for k in ("unk", "rr", "ur")})
                    halves.append(yaw.crosscorrelate(cfg, c["ref"], c["unk"], ref_rand=c["rr"], unk_rand=c["ur"], max_workers=1))
                n_arr = 0
                for s_i, cf in enumerate(cross_o):
                    for kind in ("dd", "dr"):
                        whole = getattr(cf, kind).counts.counts
                        parts = getattr(halves[0][s_i], kind).counts.counts + getattr(halves[1][s_i], kind).counts.counts
                        n_arr += 1
                        if not close_rel(parts, whole, 1e-9):
                            bad(f"split:counts-not-additive:{kind}", dict(scale=s_i, maxdiff=float(np.abs(parts - whole).max())))
                        sw_whole = getattr(cf, kind).sum_weights.sum_weights1
                        sw_parts = getattr(halves[0][s_i], kind).sum_weights.sum_weights1 + getattr(halves[1][s_i], kind).sum_weights.sum_weights1
                        if not close_rel(sw_parts, sw_whole, 1e-12):
                            bad(f"split:sum-weights-not-additive:{kind}", dict(scale=s_i))
                    for kind in ("rd", "rr"):  # untouched by the split
                        if not np.array_equal(getattr(cf, kind).counts.counts, getattr(halves[0][s_i], kind).counts.counts):
                            bad(f"split:unrelated-counts-changed:{kind}", dict(scale=s_i))
                out.append(result(HELD, cls=tr, counters=dict(pipelines_compared=1, arrays_compared=n_arr),
                                  nontrivial=bool(cross_o[0].dd.counts.counts.sum() > 0), sample=dict(case=case, P=P, bins=nb)))
                return out
            try:
                trans = build(tmp, "t", t_tables, t_centres)
                cross_t, auto_t = measure(trans)
            except Exception as e:
                import traceback

                tb = traceback.extract_tb(e.__traceback__)
                site = next((f.name for f in reversed(tb) if "/src/yaw" in f.filename), "?")
                bad(f"{tr}:transformed-run-raises-{type(e).__name__}:{site}", dict(error=str(e)[:200], **info))
                return out

        n_arr = 0
        nontrivial = False
        for s_i in range(len(cross_o)):
            for name, fo, ft in (("cross", cross_o[s_i], cross_t[s_i]), ("auto", auto_o[s_i], auto_t[s_i])):
                with np.errstate(all="ignore"):
                    so, st = fo.sample(), ft.sample()
                if np.any(np.isfinite(so.data) & (so.data != 0)):
                    nontrivial = True
                samples_t = st.samples
                if perm is not None:
                    # new patch j is old patch perm[j]: bring the new samples into the old order
                    inv = np.argsort(perm)
                    samples_t = st.samples[inv]
                n_arr += 3
                if not close_rel(st.data, so.data):
                    bad(f"{tr}:amplitude-changed:{name}", dict(scale=s_i, got=st.data.tolist(), want=so.data.tolist(), **info))
                if not close_rel(samples_t, so.samples):
                    bad(f"{tr}:jackknife-samples-changed:{name}", dict(scale=s_i, **info))
                with np.errstate(all="ignore"):
                    if not close_rel(st.covariance, so.covariance, 1e-8):
                        bad(f"{tr}:covariance-changed:{name}", dict(scale=s_i, **info))
                if tr in ("row_permutation",):
                    # raw counts are sums over the same pairs: compare them too
                    for kind in fo.to_dict():
                        if not close_rel(getattr(ft, kind).counts.counts, getattr(fo, kind).counts.counts, 1e-12):
                            bad(f"{tr}:counts-changed:{name}:{kind}", dict(scale=s_i))
            with np.errstate(all="ignore"):
                nzo = RedshiftData.from_corrfuncs(cross_o[s_i], auto_o[s_i])
                nzt = RedshiftData.from_corrfuncs(cross_t[s_i], auto_t[s_i])
                wss = np.abs(auto_o[s_i].sample().data)
            good = np.isfinite(wss) & (wss > 1e-6 * np.nanmax(wss, initial=0.0)) & (auto_o[s_i].sample().data > 0)
            n_arr += 1
            if good.any() and not close_rel(nzt.data[good], nzo.data[good], 1e-8):
                bad(f"{tr}:redshift-estimate-changed", dict(scale=s_i, got=nzt.data.tolist(), want=nzo.data.tolist(), **info))
        out.append(result(HELD, cls=tr, counters=dict(pipelines_compared=1, arrays_compared=n_arr), nontrivial=nontrivial,
                          sample=dict(case=case, P=P, bins=nb, info=info)))
        return out


CHECK = C13()
