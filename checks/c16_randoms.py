"""C16 — random catalogs: exact size, footprint, joint attributes, reproducible
by seed, uniform in area.  Invariant + reproducibility + statistical monitor on
BoxRandoms and Catalog.from_random (HealPixRandoms needs healpy: unreachable)."""

from __future__ import annotations

import hashlib
import os
import warnings

import numpy as np

from engines.procwatch import run_forked
from vlib import cats
from vlib.core import case_bits, ERROR, HELD, VIOLATED, Check, Scratch, result

WINDOWS = {
    "ordinary": lambda rng: (rng.uniform(0, 200), None, rng.uniform(-60, 20), None),
    "pole_to_pole": lambda rng: (rng.uniform(0, 100), None, -90.0, 90.0),
    "north_cap": lambda rng: (0.0, 360.0, rng.uniform(60, 89), 90.0),
    "south_cap": lambda rng: (0.0, 360.0, -90.0, rng.uniform(-89, -60)),
    "thin_dec_strip": lambda rng: (rng.uniform(0, 100), None, rng.uniform(-80, 80), "thin"),
    "thin_ra_strip": lambda rng: (rng.uniform(0, 359), "thin", rng.uniform(-80, 20), None),
    "full_sky": lambda rng: (0.0, 360.0, -90.0, 90.0),
}


def make_window(rng, kind):
    ra0, ra1, dec0, dec1 = WINDOWS[kind](rng)
    if ra1 is None:
        ra1 = min(360.0, ra0 + rng.uniform(5, 150))
    elif ra1 == "thin":
        ra1 = ra0 + 10.0 ** rng.uniform(-6, -1)
    if dec1 is None:
        dec1 = min(90.0, dec0 + rng.uniform(5, 60))
    elif dec1 == "thin":
        dec1 = dec0 + 10.0 ** rng.uniform(-6, -1)
    return float(ra0), float(ra1), float(dec0), float(dec1)


def multiset_digest(rows):
    names = rows.dtype.names
    srt = np.sort(rows, order=list(names))
    return hashlib.sha1(srt.tobytes()).hexdigest()


def ks_uniform(x):
    """two-sided KS distance of x against U(0,1)."""
    x = np.sort(x)
    n = len(x)
    i = np.arange(1, n + 1)
    return float(max(np.max(i / n - x), np.max(x - (i - 1) / n)))


class C16(Check):
    id = "C16"
    level = "exploration"
    rule = (
        "seeded BoxRandoms generators over windows {ordinary, pole-to-pole, caps touching +-90 deg, thin strips in RA and "
        "Dec, full sky} x sizes {1, c-1, c, c+1, 3c+1, 5000} per chunk size c x seeds x attribute tables of 1..1000 unique "
        "(weight, redshift) rows x patch modes {centres, generated} x workers {1, 4}: record count, every point inside the "
        "window (2 ulp), every (weight, redshift) pair is a row of the supplied table, two creations from the same "
        "generator object with arbitrary use in between give identical record multisets (per patch for given centres), "
        "workers 4 == workers 1, and chi^2 (equal-area 6x6 cells) / KS (alpha, sin delta) uniformity at p < 1e-9. "
        "non-trivial = >= 2 chunks or >= 50 points; distinct = case parameters"
        ' Further classes: zero weights, reseed() after construction, reseed() of a used generator with its own seed (direct draws and catalogs), generate-mode vs centres-mode points, attribute samples as pandas Series, patch-like parent directories.'
    )
    assumptions = [
        "uniformity is a statistical verdict: false-alarm probability ~1e-9 per test, deterministic per seed",
        "HealPixRandoms is unreachable (healpy not installed)",
    ]
    floor_nontrivial = 20
    required_counters = ("catalogs_created", "points_checked", "reproducibility_pairs", "uniformity_tests")
    shards = (12, 16)
    budget = (300, 500)

    def cases(self, tier, seed):
        q = tier == "quick"
        rng = np.random.default_rng([seed, 16])
        kinds = list(WINDOWS)
        for i in range(168 if q else 2000):
            c = int(rng.choice([3, 10, 64, 500]))
            n = int(rng.choice([1, max(1, c - 1), c, c + 1, 3 * c + 1]))
            yield dict(kind="catalog", seed=seed * 100003 + i, window=kinds[i % len(kinds)], n=n, chunk=c,
                       mode="generate" if i % 5 == 4 else "centres", workers=4 if i % 4 == 3 else 1,
                       attrs=str(rng.choice(["none", "w", "z", "both"])), nattr=int(rng.choice([1, 2, 37, 1000])))
        for i in range(42 if q else 300):
            yield dict(kind="uniform", seed=seed * 1009 + i, window=kinds[i % len(kinds)], n=20000 if q else 200000)

    def setup_worker(self):
        warnings.simplefilter("ignore")
        import yaw  # noqa: F401

    def execute(self, case):
        from yaw.randoms import BoxRandoms

        rng = np.random.default_rng([case["seed"], 16])
        out = []
        counters = {}

        def bad(mech, detail):
            out.append(result(VIOLATED, mechanism=mech, detail=dict(case=case, **detail), nontrivial=False))

        ra0, ra1, dec0, dec1 = make_window(rng, case["window"])
        lo_ra, hi_ra, lo_dec, hi_dec = (np.deg2rad(v) for v in (ra0, ra1, dec0, dec1))

        def inside(ra, dec, tag):
            eps_ra = 2 * np.spacing(max(abs(lo_ra), abs(hi_ra), 1e-300))
            eps_dec = 4 * np.spacing(max(abs(lo_dec), abs(hi_dec), 1e-300)) + 3e-8 * (abs(hi_dec) > 1.5 or abs(lo_dec) > 1.5)
            ok = (ra >= lo_ra - eps_ra) & (ra <= hi_ra + eps_ra) & (dec >= lo_dec - eps_dec) & (dec <= hi_dec + eps_dec)
            counters["points_checked"] = counters.get("points_checked", 0) + len(ra)
            if not ok.all():
                j = int(np.flatnonzero(~ok)[0])
                bad(f"window:point-outside:{tag}", dict(point=[float(ra[j]), float(dec[j])], window=[lo_ra, hi_ra, lo_dec, hi_dec]))

        if case["kind"] == "uniform":
            n = case["n"]
            g = BoxRandoms(ra0, ra1, dec0, dec1, seed=int(rng.integers(1 << 30)))
            d = g(n)
            if len(d) != n:
                bad("size:generator-call", dict(got=len(d), want=n))
            inside(d["ra"], d["dec"], "generator")
            u = (d["ra"] - lo_ra) / (hi_ra - lo_ra)
            v = (np.sin(d["dec"]) - np.sin(lo_dec)) / (np.sin(hi_dec) - np.sin(lo_dec))
            if np.all(np.isfinite(u)) and np.all(np.isfinite(v)) and hi_dec - lo_dec > 1e-4 and hi_ra - lo_ra > 1e-4:
                from scipy import stats

                dcrit = np.sqrt(np.log(2e9) / (2 * n))
                counters["uniformity_tests"] = counters.get("uniformity_tests", 0) + 3
                for name, x in (("alpha", u), ("sin-delta", v)):
                    dks = ks_uniform(np.clip(x, 0, 1))
                    if dks > dcrit:
                        bad(f"uniformity:ks:{name}", dict(D=dks, critical=float(dcrit), n=n, window=case["window"]))
                k = 6
                cells = np.clip((u * k).astype(int), 0, k - 1) * k + np.clip((v * k).astype(int), 0, k - 1)
                obs = np.bincount(cells, minlength=k * k)
                chi2 = float(((obs - n / (k * k)) ** 2 / (n / (k * k))).sum())
                p = float(stats.chi2.sf(chi2, k * k - 1))
                if p < 1e-9:
                    bad("uniformity:chi2-equal-area-cells", dict(chi2=chi2, p=p, n=n, window=case["window"]))
                # independence of the two coordinates (rank correlation)
                rho = float(stats.spearmanr(u[:5000], v[:5000])[0])
                if abs(rho) > 6.2 / np.sqrt(min(n, 5000)):
                    bad("uniformity:alpha-delta-correlated", dict(rho=rho))
            else:
                counters["uniformity_tests"] = counters.get("uniformity_tests", 0) + 1
            out.append(result(HELD, cls=f"uniform/{case['window']}", counters=counters,
                              sample=dict(case=case, window=[ra0, ra1, dec0, dec1])))
            return out

        # ---- catalogs ----------------------------------------------------------------------------
        n, chunk, workers = case["n"], case["chunk"], case["workers"]
        if case["mode"] == "generate":
            # treecorr's OpenMP runtime is not fork-safe: running it in a forked child of a process
            # that already used it deadlocks (harness artefact, DESIGN §6) -> generated centres run in-process only
            workers = 1
        m = case["nattr"]
        w = (np.arange(m) + 0.5) if case["attrs"] in ("w", "both") else None
        z = ((np.arange(m) * 7919) % 10007 + 1) / 4096.0 if case["attrs"] in ("z", "both") else None
        # a weight sample with exact zeros (masked objects, 0/1 flags): zero-weight rows are drawn like any other
        zero_w = w is not None and case_bits(case, "zero-weights") % 3 == 0
        if zero_w:
            w = w.copy()
            w[np.arange(m) % 3 == 1] = 0.0
        w_arg, z_arg = w, z
        if case_bits(case, "series-attributes") % 3 == 0 and (w is not None or z is not None):
            # attribute samples handed over as columns of a re-ordered table (pandas Series whose labels are not 0..m-1):
            # the source row of a drawn point is a POSITION, the same one for weight and redshift
            import pandas as pd

            labels = np.random.default_rng(case["seed"]).permutation(m)
            w_arg = None if w is None else pd.Series(w, index=labels)
            z_arg = None if z is None else pd.Series(z, index=labels)
        seed = int(rng.integers(1 << 30))
        if case["mode"] == "generate":
            n = max(n, 200)
        # centres: a coarse grid inside the window; only those that will attract points for sure (n large) else one centre
        ncen = 1 if n < 50 else int(rng.integers(1, 4))
        cra = np.linspace(lo_ra, hi_ra, ncen + 2)[1:-1]
        cdec = np.arcsin(np.linspace(np.sin(lo_dec), np.sin(hi_dec), ncen + 2)[1:-1])
        centres = np.column_stack([cra, cdec])

        with Scratch("c16") as tmp:
            if case_bits(case, "patch-like-parent") % 3 == 0:
                tmp = tmp / ["patch_6", "run_patch_16", "npatch_006"][case_bits(case, "parent-name") % 3] / "randoms"
                tmp.mkdir(parents=True)

            def create(tag, gen_obj, nw, mode=None):
                from yaw import AngularCoordinates, Catalog

                os.environ["YAW_NUM_THREADS"] = str(nw)
                kw = dict(chunksize=chunk, max_workers=nw)
                if (mode or case["mode"]) == "centres":
                    kw["patch_centers"] = AngularCoordinates(centres)
                else:
                    kw.update(patch_num=2, probe_size=min(n, 150))
                cat = Catalog.from_random(tmp / tag, gen_obj, n, **kw)
                os.environ["YAW_NUM_THREADS"] = "1"
                per_patch = {int(p): multiset_digest(cat[p].load_data()) for p in cat}
                allrows = np.concatenate([cat[p].load_data() for p in cat])
                return dict(per_patch=per_patch, all=multiset_digest(allrows), n=int(len(allrows)),
                            meta_n=int(sum(cat.get_num_records())), names=list(allrows.dtype.names))

            g = BoxRandoms(ra0, ra1, dec0, dec1, weights=w_arg, redshifts=z_arg, seed=seed)
            try:
                first = create("a", g, 1)
            except ValueError as e:
                if "no data assigned" in str(e):  # a centre without points: legitimate refusal (C09)
                    out.append(result(HELD, cls="refused-empty-centre", nontrivial=False))
                    return out
                bad(f"creation:raises-{type(e).__name__}", dict(error=str(e)[:200]))
                return out
            counters["catalogs_created"] = 1
            from yaw import Catalog

            cat = Catalog(tmp / "a", max_workers=1)
            rows = np.concatenate([cat[p].load_data() for p in cat])
            if first["n"] != n or first["meta_n"] != n:
                bad("size:catalog", dict(got=first["n"], meta=first["meta_n"], want=n, chunk=chunk))
            inside(rows["ra"], rows["dec"], "catalog")
            if ("weights" in rows.dtype.names) != (w is not None) or ("redshifts" in rows.dtype.names) != (z is not None):
                bad("attributes:columns-differ", dict(names=list(rows.dtype.names)))
            else:
                if zero_w:
                    counters["zero_weight_tables"] = 1
                    if not np.all(np.isin(rows["weights"], w)):
                        bad("attributes:weight-not-from-table", {})
                    elif z is not None and m <= 10007:
                        order = np.argsort(z)
                        src = order[np.searchsorted(z[order], rows["redshifts"])]  # source row through the unique redshift
                        if not (np.array_equal(z[src], rows["redshifts"]) and np.array_equal(w[src], rows["weights"])):
                            bad("attributes:weight-redshift-not-joint", dict(zero_weights=True))
                    if m >= 30 and n >= 60 and not np.any(rows["weights"] == 0.0):
                        bad("attributes:zero-weight-rows-never-drawn", dict(n=n, m=m))
                elif w is not None:
                    k = rows["weights"] - 0.5
                    if not (np.all(k == np.round(k)) and np.all((k >= 0) & (k < m))):
                        bad("attributes:weight-not-from-table", {})
                    elif z is not None and not np.array_equal(rows["redshifts"], z[k.astype(int)]):
                        bad("attributes:weight-redshift-not-joint", dict(n_wrong=int((rows["redshifts"] != z[k.astype(int)]).sum())))
                elif z is not None and not np.all(np.isin(rows["redshifts"], z)):
                    bad("attributes:redshift-not-from-table", {})
            # ---- reproducibility: use the generator in between, then create again -------------
            for _ in range(int(rng.integers(0, 4))):
                action = rng.integers(3)
                if action == 0:
                    g(int(rng.integers(1, 50)))
                elif action == 1:
                    g.generate_dataframe(int(rng.integers(1, 20)))
                else:
                    g._draw_coords(3) if False else g(1)
            second = create("b", g, 1)
            counters["catalogs_created"] += 1
            counters["reproducibility_pairs"] = counters.get("reproducibility_pairs", 0) + 1
            if second["all"] != first["all"]:
                bad("reproducibility:second-creation-differs", dict(n=n, chunk=chunk, mode=case["mode"]))
            elif case["mode"] == "centres" and second["per_patch"] != first["per_patch"]:
                bad("reproducibility:per-patch-differs", {})
            fresh = create("c", BoxRandoms(ra0, ra1, dec0, dec1, weights=w_arg, redshifts=z_arg, seed=seed), 1)
            counters["reproducibility_pairs"] += 1
            if fresh["all"] != first["all"]:
                bad("reproducibility:fresh-generator-same-seed-differs", {})
            # a generator given its seed after construction (reseed) is the generator constructed with that seed
            late = BoxRandoms(ra0, ra1, dec0, dec1, weights=w_arg, redshifts=z_arg, seed=seed + 17)
            late.reseed(seed)
            if int(rng.integers(2)):
                late(5)
            reseeded = create("r", late, 1)
            counters["reproducibility_pairs"] += 1
            if reseeded["all"] != first["all"]:
                bad("reproducibility:reseeded-generator-differs", dict(mode=case["mode"]))
            # ... also when the value given is the one it already has: reseeding a used generator restarts its stream (round 7)
            used = BoxRandoms(ra0, ra1, dec0, dec1, weights=w_arg, redshifts=z_arg, seed=seed)
            used(int(rng.integers(1, 40)))
            used.reseed(seed)
            m = int(rng.integers(1, 40))
            direct, want_direct = used(m), BoxRandoms(ra0, ra1, dec0, dec1, weights=w_arg, redshifts=z_arg, seed=seed)(m)
            counters["reproducibility_pairs"] += 1
            if np.asarray(direct).tobytes() != np.asarray(want_direct).tobytes():
                bad("reproducibility:reseed-with-own-seed-keeps-stream-position", dict(mode=case["mode"], direct_draw=True))
            used.reseed(seed)
            again = create("s", used, 1)
            counters["reproducibility_pairs"] += 1
            if again["all"] != first["all"]:
                bad("reproducibility:reseed-with-own-seed-keeps-stream-position", dict(mode=case["mode"]))
            if case["mode"] == "generate":
                # the points are the generator's seeded stream whichever way the patches are defined
                try:
                    by_centres = create("m", BoxRandoms(ra0, ra1, dec0, dec1, weights=w_arg, redshifts=z_arg, seed=seed), 1, mode="centres")
                    counters["reproducibility_pairs"] += 1
                    if by_centres["all"] != first["all"]:
                        bad("reproducibility:points-depend-on-patch-mode", dict(n=n, chunk=chunk))
                except ValueError as e:
                    if "no data assigned" not in str(e):
                        raise
            other = create("d", BoxRandoms(ra0, ra1, dec0, dec1, weights=w_arg, redshifts=z_arg, seed=seed + 1), 1)
            if n >= 3 and other["all"] == first["all"]:
                bad("reproducibility:seed-ignored", {})
            if workers > 1:
                res = run_forked(lambda: create("e", BoxRandoms(ra0, ra1, dec0, dec1, weights=w_arg, redshifts=z_arg, seed=seed), workers),
                                 workdir=tmp, wall_cap=120)
                if res["outcome"] == "returned":
                    counters["reproducibility_pairs"] += 1
                    if res["value"]["all"] != first["all"]:
                        bad("reproducibility:parallel-differs-from-sequential", dict(workers=workers))
                elif res["outcome"] == "quiescent":
                    bad("creation:hang", dict(stack=res.get("stack", "")[-500:]))
                elif res["outcome"] == "raised":
                    bad(f"creation:raises-{res['type']}:parallel", dict(error=res["message"]))
                else:
                    out.append(result(ERROR, detail=str(res), nontrivial=False))
        out.append(result(HELD, cls=f"catalog/{case['window']}/{case['mode']}", counters=counters,
                          nontrivial=(n > chunk or n >= 50),
                          sample=dict(case=case, window=[ra0, ra1, dec0, dec1], n=n)))
        return out


CHECK = C16()
