"""C06 — MPI runs terminate and the root rank gets the single-process result.

History / event-log monitor on a simulated MPI world (engines/fakempi): the
library's real MPI branches run on N rank-threads under a deterministic seeded
scheduler that explores wildcard-receive match orders, rank interleavings and
eager vs rendezvous send completion; offline checkers decide termination
(logical deadlock detection), exactly-once task execution, conservation of
records between reader, workers and writer, agreement of broadcast results on
all ranks, and equality of the root's results with a single-process reference
computed by a separate process that never saw mpi4py."""

from __future__ import annotations

import itertools
import multiprocessing
import os
import shutil
import sys
import warnings
from pathlib import Path

import numpy as np

from vlib.core import ERROR, HELD, VIOLATED, Check, Scratch, result

FAKEMPI = str(Path(__file__).resolve().parent.parent / "engines" / "fakempi")
POLICIES = ["random", "fifo", "lifo", "newest-sender", "sentinel-first", "starve:1", "starve:0"]
DRIVERS = ["create", "reopen", "reopen_compute_meta", "trees", "cross", "auto", "hist", "io"]


class C06(Check):
    id = "C06"
    level = "exploration"
    rule = (
        "simulated MPI worlds of 2, 3, 4, 5 and 8 ranks run the library's real MPI code paths for drivers {catalog creation "
        "from DataFrame / HDF5 / FITS / Parquet / random generator with given centres, an index column or generated centres, reopen (with and without metadata "
        "computation), build_trees, crosscorrelate, autocorrelate, HistData.from_catalog, CorrFunc/CorrData/Configuration "
        "file round trips, the task iterator called directly with and without rank0_node_only} x max_workers {None, 1, 2, size, size+1} x send completion {eager, rendezvous} x scheduler policy "
        "{random, fifo, lifo, newest-sender, sentinel-first, starve a rank} x placement of the ranks on nodes {single node, block, "
        "round-robin} x progress display on/off x seeds. Per run: no logical deadlock, no rank "
        "raising where the single-process run does not, executed tasks == submitted tasks as multisets, records read == "
        "delivered to the writer == stored (unique ids), no message left unreceived, broadcast results equal on all ranks, "
        "root result == single-process reference. A refusal raised on every rank before any communication is counted "
        "separately. non-trivial = the run exchanged >= 1 message between different ranks; distinct = scheduler decision sequence"
    )
    assumptions = [
        "a simulated runtime: protocol/ordering errors are reachable, transport limits and multi-node placement are not",
        "code between two MPI calls of a rank is atomic with respect to other ranks",
        "the double never reorders same-sender messages matching one receive pattern, never drops or duplicates",
    ]
    floor_nontrivial = 30
    required_counters = ("worlds_run", "messages_exchanged", "wildcard_matches_with_choice", "tasks_checked_exactly_once",
                         "root_results_compared")
    shards = (14, 16)
    budget = (300, 900)

    def cases(self, tier, seed):
        q = tier == "quick"
        rng = np.random.default_rng([seed, 6])
        reps = 1 if q else 40
        k = 0
        for rep in range(reps):
            for driver in DRIVERS:
                for size in (2, 3, 4, 5, 8):
                    variants = ["dataframe/centres", "hdf5/index", "random/centres", "dataframe/index", "dataframe/generate",
                                "fits/centres", "parquet/index", "dataframe/empty_centre", "random/generate", "dataframe/centres_overwrite"] if driver == "create" else ["-"]
                    for var in variants:
                        if q and driver == "create" and size in (5,) and var != "dataframe/centres":
                            continue
                        k += 1
                        mws = [None, 1, 2, size, size + 1]
                        yield dict(driver=driver, size=size, variant=var, seed=seed * 100003 + k,
                                   max_workers=mws[int(rng.integers(len(mws)))] if rep else mws[k % len(mws)],
                                   n=int(rng.choice([7, 40, 250])), chunk=int(rng.choice([3, 16, 100, 1000])),
                                   progress=bool(k % 3 == 0), placement=["single", "block", "round-robin"][k % 3 if size >= 4 else 0],
                                   schedules=10 if q else 24)

        # the task iterator called directly, with and without "root's node only", on every placement (own case
        # numbers: the cases above keep theirs)
        k = 10 ** 6
        for rep in range(1 if q else 12):
            for size in (2, 3, 4, 5, 8):
                for placement in (["single"] if size < 4 else ["single", "block", "round-robin"]):
                    for node_only in (False, True):
                        k += 1
                        mws = [None, 2, size, size + 1, 3]
                        yield dict(driver="tasks", size=size, variant="-", seed=seed * 100003 + k, max_workers=mws[k % len(mws)],
                                   n=[7, 12, 40][k % 3], chunk=16, progress=False, placement=placement, node_only=node_only,
                                   schedules=6 if q else 16)

    # ------------------------------------------------------------------
    def setup_worker(self):
        warnings.simplefilter("ignore")
        os.environ["YAW_NUM_THREADS"] = "1"
        from checks import mpi_drivers as c06_drivers

        # 1) reference server with the ordinary (non-MPI) back end, started before mpi4py exists
        assert "yaw" not in sys.modules and "mpi4py" not in sys.modules, "yaw imported before the back end was chosen"
        ctx = multiprocessing.get_context("fork")
        self._conn, child = ctx.Pipe()
        self._server = ctx.Process(target=c06_drivers.reference_server, args=(child,), daemon=True)
        self._server.start()
        child.close()
        # 2) this process: simulated mpi4py first on sys.path, then import yaw (selects the MPI branches)
        sys.path.insert(0, FAKEMPI)
        from mpi4py import MPI  # noqa: F401

        import yaw  # noqa: F401
        from yaw.utils import parallel

        assert parallel.use_mpi(), "the MPI code paths were not selected"
        self._install_observers()
        # progress bars write to stderr: silence fd 2 in this worker
        os.dup2(os.open(os.devnull, os.O_WRONLY), 2)

    def _ask(self, cmd, args):
        self._conn.send((cmd, args))
        if not self._conn.poll(300):
            raise RuntimeError("reference server does not answer")
        return self._conn.recv()

    def _install_observers(self):
        """Observability: task submission / execution and record flow, logged into the current world."""
        import yaw.catalog.catalog as ycat
        from mpi4py import MPI
        from yaw.utils import parallel

        def world():
            return getattr(MPI._tls, "world", None)

        def key_of(arg):
            if hasattr(arg, "id1"):
                return f"pair:{arg.id1}-{arg.id2}"
            if hasattr(arg, "cache_path"):
                return f"patch:{Path(arg.cache_path).name}"
            if isinstance(arg, tuple):
                return "tuple:" + ",".join(key_of(a) for a in arg)
            return repr(arg)[:60]

        orig_call = parallel.ParallelJob.__call__

        def logged_call(self_, arg):
            w = world()
            if w is not None:
                w.user_events.append(("executed", MPI._tls.rank, w.iter_calls.get(MPI._tls.rank, 0), key_of(arg)))
            return orig_call(self_, arg)

        parallel.ParallelJob.__call__ = logged_call
        orig_iter = parallel.iter_unordered

        def logged_iter(func, iterable, **kw):
            w = world()
            if w is None:
                yield from orig_iter(func, iterable, **kw)
                return
            rank = MPI._tls.rank
            w.iter_calls[rank] = w.iter_calls.get(rank, 0) + 1
            call_id = w.iter_calls[rank]
            if rank == 0:
                items = list(iterable)
                for it in items:
                    w.user_events.append(("submitted", 0, call_id, key_of(it)))
                n = 0
                for r in orig_iter(func, items, **kw):
                    n += 1
                    yield r
                w.user_events.append(("yielded", 0, call_id, n))
            else:
                yield from orig_iter(func, iterable, **kw)

        parallel.iter_unordered = logged_iter
        orig_pp = ycat.CatalogWriter.process_patches

        def logged_pp(self_, patches):
            w = world()
            if w is not None:
                for p in patches.values():
                    if "weights" in p.dtype.names:
                        w.user_events.append(("written", MPI._tls.rank, 0, [float(x) for x in p["weights"]]))
            return orig_pp(self_, patches)

        ycat.CatalogWriter.process_patches = logged_pp

    # ------------------------------------------------------------------
    def execute(self, case):
        from checks import mpi_drivers as c06_drivers
        from mpi4py import MPI

        rng = np.random.default_rng([case["seed"], 66])
        out = []
        counters = dict(worlds_run=0, messages_exchanged=0, wildcard_matches_with_choice=0, tasks_checked_exactly_once=0,
                        root_results_compared=0)
        driver, size, mw = case["driver"], case["size"], case["max_workers"]
        params = dict(seed=case["seed"], max_workers=mw, n=case["n"], chunk=case["chunk"], progress=case.get("progress", False))
        # placement of the ranks on nodes (the library keeps catalog creation on the root's node)
        placement = case.get("placement", "single")
        if placement == "block":
            nodes = ["A" if r < (size + 1) // 2 else "B" for r in range(size)]
        elif placement == "round-robin":
            nodes = ["AB"[r % 2] for r in range(size)]
        else:
            nodes = None
        if driver == "tasks":
            params["node_only"] = bool(case.get("node_only"))
        if driver == "create":
            params["source"], params["mode"] = case["variant"].split("/")
            if params["source"] == "random" or params["mode"] == "generate":
                params["n"] = max(params["n"], 60)
        seen_decisions = set()
        mech_seen = {}

        def bad(mech, detail):
            if mech not in mech_seen:
                mech_seen[mech] = 0
                out.append(result(VIOLATED, mechanism=mech, detail=dict(case=case, **detail), nontrivial=False))
            mech_seen[mech] += 1

        with Scratch("c06") as tmp:
            st, val = self._ask("prepare", (str(tmp / "template"), case["seed"] % 1000))
            if st != "ok":
                return [result(ERROR, detail=f"reference prepare failed: {val}", nontrivial=False)]
            src_ext = {"hdf5": ".hdf5", "fits": ".fits", "parquet": ".pqt"}
            if driver == "create" and params["source"] in src_ext:
                self._ask("write_source", (params["source"], str(tmp / ("input" + src_ext[params["source"]])), params["seed"], params["n"]))

            def fresh_run_dir(tag):
                d = tmp / tag
                shutil.rmtree(d, ignore_errors=True)
                d.mkdir()
                shutil.copytree(tmp / "template" / "base", d / "base")
                for f in tmp.glob("input.*"):
                    shutil.copy(f, d / f.name)
                return d

            st, ref = self._ask("run", (driver, params, str(fresh_run_dir("ref"))))
            ref_raised = st == "raised"
            if st not in ("ok", "raised"):
                return [result(ERROR, detail=f"reference run failed: {ref}", nontrivial=False)]

            schedules = list(itertools.islice(itertools.cycle(itertools.product(POLICIES, ["eager", "rendezvous"])), case["schedules"]))
            for si, (policy, mode) in enumerate(schedules):
                run_dir = fresh_run_dir("run")
                world = MPI.World(size, seed=int(rng.integers(1 << 30)), policy=policy, send_mode=mode, node_names=nodes)
                world.user_events = []
                world.iter_calls = {}
                rep = world.run(lambda rank: c06_drivers.run_driver(driver, params, run_dir), wall_cap=120)
                counters["worlds_run"] += 1
                sig = hash(tuple(world.decisions))
                new_sched = sig not in seen_decisions
                seen_decisions.add(sig)
                msgs = [e for e in world.events if e["op"] in ("send", "ssend") and e["peer"] != e["rank"]]
                counters["messages_exchanged"] += len(msgs)
                counters["wildcard_matches_with_choice"] += sum(1 for d in world.decisions if d[0] == "match" and d[3] > 1)
                tag = f"{driver}:{case['variant']}" if driver == "create" else driver
                ctx = dict(size=size, policy=policy, send_mode=mode, max_workers=mw, world_seed=si)
                if rep["watchdog"]:
                    out.append(result(ERROR, detail=f"simulator watchdog fired: ranks {rep['watchdog']}", nontrivial=False))
                    continue
                # ---- outcome classification ---------------------------------------------------------------
                if rep["failed"]:
                    types = {v["type"] for v in rep["failed"].values()}
                    all_failed = len(rep["failed"]) == size
                    cross_msgs = len(msgs)
                    msgs_txt = {v["message"] for v in rep["failed"].values()}
                    documented = types == {"ValueError"} and all("at least two workers" in m for m in msgs_txt)
                    like_reference = ref_raised and types == {ref["type"]}  # every rank fails the way a single process does
                    if all_failed and (like_reference or (cross_msgs == 0 and documented)):
                        # consistent refusal on every rank before any communication
                        if ref_raised and ref["type"] in types:
                            counters["consistent_errors_like_reference"] = counters.get("consistent_errors_like_reference", 0) + 1
                        else:
                            counters["documented_refusals"] = counters.get("documented_refusals", 0) + 1
                            counters[f"refusal:{next(iter(types))}"] = counters.get(f"refusal:{next(iter(types))}", 0) + 1
                        continue
                    first = next(iter(rep["failed"].values()))
                    bad(f"rank-raises:{tag}:{first['type']}:{first['site']}",
                        dict(ctx, failed={str(k): v for k, v in rep["failed"].items()}, aborted=rep["aborted"]))
                    continue
                if rep["aborted"]:
                    kind = "deadlock" if "DEADLOCK" in rep["aborted"] else "aborted"
                    bad(f"{kind}:{tag}", dict(ctx, why=rep["aborted"][:600]))
                    continue
                if ref_raised:
                    bad(f"mpi-accepts-what-single-process-rejects:{tag}", dict(ctx, reference=ref))
                    continue
                results = rep["results"]
                # ---- event-log checkers -------------------------------------------------------------------
                if rep["unreceived"]:
                    bad(f"messages-left-unreceived:{tag}", dict(ctx, unreceived=rep["unreceived"]))
                sub, exe = {}, {}
                for ev in world.user_events:
                    if ev[0] == "submitted":
                        sub.setdefault(ev[2], []).append(ev[3])
                    elif ev[0] == "executed":
                        exe.setdefault(ev[2], []).append(ev[3])
                for call_id, keys in sub.items():
                    counters["tasks_checked_exactly_once"] += len(keys)
                    if sorted(keys) != sorted(exe.get(call_id, [])):
                        missing = len(keys) - len(exe.get(call_id, []))
                        bad(f"tasks-not-exactly-once:{tag}:{'none-executed' if not exe.get(call_id) else 'mismatch'}",
                            dict(ctx, call=call_id, submitted=len(keys), executed=len(exe.get(call_id, [])), missing=missing))
                        break
                if driver == "create":
                    written = sorted(x for ev in world.user_events if ev[0] == "written" for x in ev[3])
                    want_ids = sorted((np.arange(params["n"]) + 0.5).tolist())
                    if params["mode"] == "centres_overwrite":  # the catalog created first (half of the rows) was written too
                        want_ids = sorted(want_ids + (np.arange(max(3, params["n"] // 2)) + 0.5).tolist())
                    if params["source"] != "random" and written != want_ids:
                        bad(f"records-lost-before-writer:{tag}", dict(ctx, delivered=len(written), read=len(want_ids)))
                # ---- results ------------------------------------------------------------------------------------
                counters["root_results_compared"] += 1
                root = results.get(0)
                if driver == "create" and params["mode"] == "generate" and isinstance(root, dict):
                    # centres come from treecorr's k-means (not reproducible): same record multiset, 2 patches,
                    # partition reproduced by the reported centres, all ranks agree
                    if root.get("all") != ref.get("all") or root.get("keys") != [0, 1] or not root.get("partition_reproduced"):
                        bad(f"root-differs-from-single-process:{tag}:{'records' if root.get('all') != ref.get('all') else 'partition'}",
                            dict(ctx, root={k: root.get(k) for k in ("n", "keys", "partition_reproduced")}, reference_n=ref.get("n")))
                    if any(results.get(r) != root for r in range(size)):
                        bad(f"ranks-disagree-on-broadcast-result:{tag}", dict(ctx))
                    continue
                if not c06_drivers.same_result(root, ref):
                    detail = dict(ctx)
                    if driver == "create" and isinstance(root, dict):
                        got_n = sum(v[0] for v in root["per_patch"].values())
                        want_n = sum(v[0] for v in ref["per_patch"].values())
                        detail.update(records_root=got_n, records_reference=want_n)
                        sub_tag = "records-lost" if got_n < want_n else ("metadata-differ" if root["per_patch"] == ref["per_patch"] else "records-differ")
                    elif isinstance(root, dict) and isinstance(ref, dict):
                        keys = [k for k in ref if root.get(k) != ref[k]]
                        sub_tag = "+".join(keys)
                        if driver in ("reopen", "reopen_compute_meta") and not root.get("keys"):
                            sub_tag = "empty-catalog"
                    else:
                        sub_tag = "no-result"
                    bad(f"root-differs-from-single-process:{tag}:{sub_tag}", detail)
                if driver in ("reopen", "reopen_compute_meta", "hist", "io", "create"):
                    if any(not c06_drivers.same_result(results.get(r), root) for r in range(size)):
                        which = [r for r in range(size) if not c06_drivers.same_result(results.get(r), root)]
                        bad(f"ranks-disagree-on-broadcast-result:{tag}", dict(ctx, ranks=which))
                if new_sched and msgs:
                    counters["distinct_schedules"] = counters.get("distinct_schedules", 0) + 1
        nontrivial = counters["messages_exchanged"] > 0
        out.append(result(HELD, cls=f"{driver}/size{size}", counters=counters, nontrivial=nontrivial,
                          key=f"{driver}/{case['variant']}/{size}/{mw}/{case['seed']}",
                          sample=dict(case=case, worlds=counters["worlds_run"], messages=counters["messages_exchanged"],
                                      distinct_schedules=counters.get("distinct_schedules", 0),
                                      last_world=dict(policy=policy, send_mode=mode, steps=world.step,
                                                      first_events=[{k: v for k, v in ev.items() if k != "nbytes"} for ev in world.events[:10]],
                                                      first_decisions=[list(d) for d in world.decisions[:12]],
                                                      task_events=[list(ev[:4]) for ev in world.user_events if ev[0] != "written"][:8]))))
        return out


CHECK = C06()
