"""C18 — input is consumed in bounded chunks, each record once per pass.

History monitor: recording proxies (vlib/sources.py) stand between the
repository's readers and the data source and log every request; an offline
checker decides bounded size, consecutive partition, exactly-once per pass,
the number of passes and the absence of whole-input requests."""

from __future__ import annotations

import os
import warnings

import numpy as np

from engines.procwatch import run_forked
from vlib import cats, sources
from vlib.core import ERROR, HELD, VIOLATED, Check, Scratch, result, case_bits


def check_row_requests(events, n, c, passes_expected, what, partial=False):
    """events: list of (start, stop) in request order for one column/source.
    Returns list of (mechanism, detail)."""
    bad = []
    if not events:
        return [("request:none-observed", dict(what=what))]
    too_long = [(a, b) for a, b in events if b - a > c]
    if too_long:
        bad.append(("request:longer-than-chunk", dict(what=what, request=too_long[0], chunk=c, n=n)))
    # split into passes at every request starting at 0
    passes, cur = [], []
    for a, b in events:
        if a == 0 and cur:
            passes.append(cur)
            cur = []
        cur.append((a, b))
    passes.append(cur)
    if len(passes) != passes_expected and not (partial and len(passes) < passes_expected):
        bad.append(("request:wrong-number-of-passes", dict(what=what, got=len(passes), want=passes_expected, n=n, chunk=c)))
    for p in passes:
        count = np.zeros(n, dtype=int)
        pos = 0
        consecutive = True
        for a, b in p:
            if a != pos:
                consecutive = False
            count[a:b] += 1
            pos = b
        if not consecutive:
            bad.append(("request:not-consecutive", dict(what=what, requests=p[:6], n=n, chunk=c)))
        if partial:  # an interrupted pass: a prefix, but never a row twice
            count = np.where(count == 0, 1, count)
        if np.any(count != 1):
            k = int(np.flatnonzero(count != 1)[0])
            bad.append((f"request:row-requested-{'never' if count[k] == 0 else 'more-than-once'}",
                        dict(what=what, row=k, times=int(count[k]), n=n, chunk=c, requests=p[:6])))
        want_requests = -(-n // c)
        if len(p) != want_requests and consecutive and not np.any(count != 1) and not partial:
            bad.append(("request:not-the-chunk-partition", dict(what=what, got=len(p), want=want_requests, n=n, chunk=c)))
    return bad


class C18(Check):
    id = "C18"
    level = "exploration"
    rule = (
        "seeded creations from a recording DataFrame-like proxy, from HDF5/FITS files through recording handle proxies, "
        "from Parquet files (unit of request = row group) and from a logging random generator; lengths {1, 2, c-1, c, c+1, "
        "2c-1, 2c, 2c+1, prime}, chunk sizes {1, 2, 3, 7, 100, n, > n}, the three patch modes, workers 1 and 4, a third of the "
        "cases over an existing cache with overwrite=True. The request "
        "log must be, per pass, the consecutive partition [0,c),[c,2c),... with every row exactly once, one pass (+1 only when "
        "centres are generated), no whole-input request when n > c, and no chunk handed on longer than c. "
        "non-trivial = >= 2 requests in a pass; distinct = case parameters"
        ' Further classes: overwrite over an existing cache, irregular row groups, Parquet read-ahead bound, zero-dominated weights, index column + patch_num, debug logging, progress display on healthy and dying streams, default probe size, 2^20+1000 randoms, one row request of a DataFrame source failing once with an I/O error (raise or complete, never a skipped slice).'
    )
    assumptions = [
        "for FITS the proxy sees the slices asked of the column object, not what astropy maps underneath",
        "a Parquet row group larger than the chunk is necessarily read whole (format granularity): each group once, in order",
    ]
    floor_nontrivial = 30
    required_counters = ("requests_logged", "passes_checked", "chunks_handed_on")
    shards = (12, 16)
    budget = (300, 500)

    def cases(self, tier, seed):
        q = tier == "quick"
        rng = np.random.default_rng([seed, 18])
        kinds = ["dataframe", "hdf5", "fits", "parquet", "random"]
        modes = ["centres", "index", "generate"]
        i = 0
        # stratified: every (source, mode) gets multi-chunk inputs at and around chunk multiples
        for rep in range(2 if q else 40):
            for source in kinds:
                for mode in modes:
                    if source == "random" and mode == "index":
                        continue
                    for c, n in ((7, 15), (3, 9), (100, 250), (2, 5), (1, 4), (7, 7), (100, 99), (7, 8)):
                        if q and (c, n) in ((1, 4), (2, 5)) and source in ("fits", "parquet"):
                            continue
                        i += 1
                        yield dict(seed=seed * 100003 + i, source=source, n=n + (int(rng.integers(0, 3)) * c if rep else 0), chunk=c,
                                   mode=mode, workers=1 if i % 3 else 4, group=str(rng.choice(["smaller", "equal", "larger", "one", "irregular"])))
        # a random catalog larger than any power-of-two block size of the generators (2^20), in one chunk
        i += 1
        yield dict(seed=seed * 100003 + i, source="random", n=2**20 + 1000, chunk=10**7, mode="centres", workers=1, group="one")
        for j in range(160 if q else 6000):
            c = int(rng.choice([1, 2, 3, 7, 100]))
            n = int(rng.choice([1, 2, max(1, c - 1), c, c + 1, 2 * c - 1, 2 * c, 2 * c + 1, 97, 3 * c + 1]))
            n = max(n, 1)
            chunk = c if rng.random() < 0.75 else int(rng.choice([n, n + 5, 10**6]))
            i += 1
            yield dict(seed=seed * 100003 + i, source=kinds[j % 5], n=n, chunk=chunk,
                       mode=str(rng.choice(modes, p=[0.5, 0.3, 0.2])),
                       workers=1 if j % 3 else 4, group=str(rng.choice(["smaller", "equal", "larger", "one", "irregular"])))

    def setup_worker(self):
        warnings.simplefilter("ignore")
        import yaw  # noqa: F401

    def execute(self, case):
        import pandas as pd

        rng = np.random.default_rng([case["seed"], 18])
        out = []

        def bad(mech, detail):
            out.append(result(VIOLATED, mechanism=mech, detail=dict(case=case, **detail), nontrivial=False))

        n, chunk, mode, source, workers = case["n"], case["chunk"], case["mode"], case["source"], case["workers"]
        if source == "random" and mode == "index":
            mode = "centres"
        P = 3
        centres = cats.layout_centres(rng, P, np.deg2rad(2.0))
        if mode == "generate":
            n = max(n, 60)
            P = 2
            workers = 1  # treecorr (OpenMP) must not run in a forked child of this process (DESIGN §6)
        if source == "random":
            n = max(n, 60)
        cols = sources.make_table(rng, n, weights=True, redshifts=bool(rng.random() < 0.5), centres_xyz=centres,
                                  spread=np.deg2rad(1.5))
        sparse_w = mode == "generate" and source != "random" and case_bits(case, "sparse-weights") % 2 == 0
        if sparse_w:
            # mostly masked objects (weight exactly 0): the probe for the centres is still drawn once
            n = max(n, 120)
            cols = sources.make_table(rng, n, weights=True, redshifts=False, centres_xyz=centres, spread=np.deg2rad(1.5))
            keep_w = rng.random(n) < 0.12
            keep_w[:8] = True
            cols["w"] = np.where(keep_w, cols["w"], 0.0)
        if mode == "index":
            cols["patch"] = (np.arange(n) % P).astype("i8")
        if mode == "centres" and source != "random":
            # only centres that attract objects
            from vlib import gen

            xyz = gen.radec_to_xyz(np.deg2rad(cols["ra"]), np.deg2rad(cols["dec"]))
            used = np.unique(cats.nearest_centre(xyz, centres)[0])
            centres = centres[used]
        c_eff = chunk if source in ("dataframe", "random") else min(chunk, n)
        passes_expected = 2 if mode == "generate" else 1

        with Scratch("c18") as tmp:
            src_path = None
            if source in ("hdf5", "fits", "parquet"):
                rgs = {"smaller": max(1, chunk // 3), "equal": chunk, "larger": chunk * 2 + 1, "one": n, "irregular": chunk}[case["group"]]
                src_path = sources.write_source(source, tmp / ("input" + sources.EXT[source]), cols,
                                                row_group_size=([2 * chunk + 3, max(1, chunk // 2), 1, chunk] if case["group"] == "irregular" and source == "parquet"
                                                                else min(max(rgs, 1), n)))

            partial_log = {}
            stream_fault = None
            if case_bits(case, "stream-fault") % 6 == 0 and mode != "generate":
                stream_fault = dict(after=int(rng.integers(0, 6)), forever=bool(rng.random() < 0.5))
            elif case_bits(case, "stream-fault") % 6 == 1:
                stream_fault = dict(after=10**9, forever=False)  # progress display on a healthy stream
            debug_log = case_bits(case, "debug-logging") % 4 == 0
            # a transient I/O error of the source on one row request: the creation fails, or it is complete - the
            # slice is never skipped (round 7)
            source_fault = None
            if source == "dataframe" and stream_fault is None and case_bits(case, "source-fault") % 3 == 0:
                source_fault = dict(at=int(case_bits(case, "source-fault-at") % 4))
            saved_defaults = []

            def run():
                import yaw.catalog.catalog as ycat
                from yaw import Catalog
                from yaw.randoms import BoxRandoms

                os.environ["YAW_NUM_THREADS"] = str(workers)
                log = sources.RequestLog()
                handed = []
                partial_log.update(log=log, handed=handed)
                names = dict(ra_name="ra", dec_name="dec", weight_name="w")
                if "z" in cols:
                    names["redshift_name"] = "z"
                kw = dict(chunksize=chunk, max_workers=workers)
                if debug_log:
                    # the application switched on debug logging (to a handler of its own) before creating the catalog
                    import logging

                    lg = logging.getLogger("yaw")
                    saved_defaults.append(("logger", lg, lg.level, list(lg.handlers)))
                    lg.setLevel(logging.DEBUG)
                    lg.addHandler(logging.NullHandler())
                if stream_fault is not None:
                    # progress display on a stream that stops accepting writes (closed terminal or pipe)
                    import io

                    import yaw.utils.logging as ylog

                    class DyingStream(io.TextIOBase):
                        def __init__(self_):
                            self_.n = 0

                        def write(self_, text):
                            self_.n += 1
                            if self_.n > stream_fault["after"] and (stream_fault["forever"] or self_.n == stream_fault["after"] + 1):
                                raise OSError(5, "Input/output error")
                            return len(text)

                        def flush(self_):
                            pass

                    saved_defaults.append((ylog.Indicator.__init__, dict(ylog.Indicator.__init__.__kwdefaults__)))
                    ylog.Indicator.__init__.__kwdefaults__["stream"] = DyingStream()
                    kw["progress"] = True
                if case_bits(case, "prior") % 3 == 0:
                    # creation over an existing cache with overwrite=True: the input is still read once
                    prior = pd.DataFrame(dict(ra=[1.0, 2.0, 3.0], dec=[0.0, 1.0, 2.0], patch=[0, 1, 1]))
                    Catalog.from_dataframe(tmp / "cat", prior, ra_name="ra", dec_name="dec", patch_name="patch", max_workers=1)
                    kw["overwrite"] = True
                if mode == "centres":
                    kw["patch_centers"] = cats.coords_obj(centres)
                elif mode == "index":
                    names["patch_name"] = "patch"
                    if case_bits(case, "index-and-num") % 3 == 0:
                        # an index column together with a number of patches: the column defines the patches
                        # (documented), no centres are generated, so still a single pass
                        kw.update(patch_num=P, probe_size=n)
                else:
                    kw.update(patch_num=P, probe_size=n)
                    if case_bits(case, "default-probe-size") % 2 == 0 and source != "random":  # (random sources refuse a probe larger than the catalog)
                        kw.pop("probe_size")  # the default probe is larger than these inputs: still read chunk by chunk
                # chunks handed on by the reader: observe the iterator protocol of the reader classes
                from yaw.catalog import readers

                orig_next = readers.DataChunkReader.__next__

                def logging_next(self_):
                    chunk_ = orig_next(self_)
                    if chunk_ is not None:
                        handed.append(int(len(chunk_)))
                        log.add(op="handed", n=int(len(chunk_)))
                    return chunk_

                readers.DataChunkReader.__next__ = logging_next
                if source == "dataframe":
                    frame = sources.RecordingFrame(pd.DataFrame(cols), log, fail_at=None if source_fault is None else source_fault["at"])
                    Catalog.from_dataframe(tmp / "cat", frame, **names, **kw)
                elif source == "random":
                    class LoggingRandoms(BoxRandoms):
                        def __call__(self_, probe_size):
                            log.add(op="draw", size=int(probe_size))
                            return super().__call__(probe_size)

                        def _draw_coords(self_, probe_size):
                            log.add(op="draw_coords", size=int(probe_size))
                            return super()._draw_coords(probe_size)

                    g = LoggingRandoms(0.0, 30.0, -10.0, 10.0, weights=cols["w"], seed=int(case["seed"] % 97))
                    kw2 = dict(kw)
                    if mode == "centres":
                        kw2["patch_centers"] = cats.coords_obj(np.array([[np.deg2rad(5.0), 0.0], [np.deg2rad(15.0), 0.0], [np.deg2rad(25.0), 0.0]]))
                    Catalog.from_random(tmp / "cat", g, n, **kw2)
                else:
                    with sources.instrumented_opens(log):
                        Catalog.from_file(tmp / "cat", src_path, **names, **kw)
                os.environ["YAW_NUM_THREADS"] = "1"
                return dict(events=log.events, handed=handed)

            def run_tolerating_stream_fault():
                try:
                    return run()
                except Exception as e:
                    if source_fault is not None and any(ev["op"] == "rows_failed" for ev in partial_log["log"].events):
                        # the injected source fault was reported (by whatever exception): judged as a partial run
                        return dict(events=partial_log["log"].events, handed=partial_log["handed"], raised=f"{type(e).__name__}: {e}")
                    if stream_fault is None or not isinstance(e, OSError):
                        raise
                    # the creation may fail when its progress output cannot be written; what it requested
                    # of the input until then is still judged
                    return dict(events=partial_log["log"].events, handed=partial_log["handed"], raised=f"{type(e).__name__}: {e}")
                finally:
                    for item in saved_defaults:
                        if item[0] == "logger":
                            _, lg, level, handlers = item
                            lg.setLevel(level)
                            lg.handlers[:] = handlers
                        else:
                            func, d = item
                            func.__kwdefaults__.clear()
                            func.__kwdefaults__.update(d)
                    saved_defaults.clear()

            if workers > 1:
                res = run_forked(run_tolerating_stream_fault, workdir=tmp, wall_cap=120)
                if res["outcome"] == "quiescent":
                    bad("creation:hang", dict(stack=res.get("stack", "")[-500:]))
                    return out
                if res["outcome"] != "returned":
                    if res["outcome"] == "raised":
                        bad(f"creation:raises-{res['type']}", dict(error=res["message"]))
                    else:
                        out.append(result(ERROR, detail=str(res), nontrivial=False))
                    return out
                obs = res["value"]
            else:
                from yaw.catalog import readers
                import yaw.catalog.catalog as ycat

                saved = (readers.DataChunkReader.__next__, ycat.new_filereader)
                try:
                    obs = run_tolerating_stream_fault()
                except Exception as e:
                    bad(f"creation:raises-{type(e).__name__}", dict(error=str(e)[:300]))
                    return out
                finally:
                    readers.DataChunkReader.__next__, ycat.new_filereader = saved

        events, handed = obs["events"], obs["handed"]
        partial = "raised" in obs  # creation gave up because its progress stream died
        counters = dict(requests_logged=len(events), chunks_handed_on=len(handed))
        if source_fault is not None:
            counters["source_fault_runs"] = 1
            counters["source_fault_injected"] = int(any(e["op"] == "rows_failed" for e in events))
            counters["source_fault_raised"] = int(partial)
        if stream_fault is not None:
            counters["stream_fault_runs"] = 1
            counters["stream_fault_raised"] = int(partial)
        # chunks handed on
        if handed:
            if max(handed) > c_eff:
                bad("chunk:longer-than-chunksize", dict(longest=max(handed), chunk=c_eff, n=n))
            per_pass = sum(handed) / passes_expected
            handed_passes = 1 if source == "random" else passes_expected  # the random probe is one direct draw
            if sum(handed) != n * handed_passes and not (partial and sum(handed) < n * handed_passes):
                bad("chunk:records-handed-on-differ-from-input", dict(handed=sum(handed), want=n * handed_passes, passes=handed_passes))
            _ = per_pass
        elif not partial:
            bad("chunk:none-observed", {})
        # whole-input requests
        whole = [e for e in events if e["op"] in ("whole", "attr")]
        if whole and n > c_eff:
            bad("request:whole-input", dict(first=whole[0], n=n, chunk=c_eff))
        elif whole:
            counters["whole_requests_when_n_le_chunk"] = len(whole)
        nreq_pass = 0
        if source in ("dataframe", "hdf5", "fits"):
            by_col = {}
            for e in events:
                if e["op"] == "rows":
                    by_col.setdefault(e.get("col", "<frame>"), []).append((e["start"], e["stop"]))
            if not by_col and not partial:
                bad("request:none-observed", dict(source=source))
            for col, ev in by_col.items():
                counters["passes_checked"] = counters.get("passes_checked", 0) + passes_expected
                for mech, detail in check_row_requests(ev, n, c_eff, passes_expected, f"{source}:{col}", partial=partial):
                    bad(mech, detail)
                nreq_pass = max(nreq_pass, len(ev) // passes_expected)
        elif source == "parquet":
            groups = [e for e in events if e["op"] == "row_group"]
            seq = [e["index"] for e in groups]
            ng = len(set(seq))
            want = list(range(ng)) * passes_expected
            counters["passes_checked"] = passes_expected
            if seq != want and not (partial and seq == want[: len(seq)]):
                bad("request:row-groups-not-once-in-order", dict(got=seq[:20], passes=passes_expected))
            # bounded read-ahead: at no time more rows requested than handed on + one chunk + the row group that completes it
            ahead = worst = 0
            biggest = max((e["rows"] for e in groups), default=0)
            for e in events:
                if e["op"] == "row_group":
                    if e["index"] == 0:
                        ahead = 0  # a new pass starts
                    ahead += e["rows"]
                elif e["op"] == "handed":
                    ahead -= e["n"]
                worst = max(worst, ahead)
            counters["parquet_max_rows_ahead"] = worst
            if worst > c_eff + 2 * biggest:
                bad("request:reads-ahead-of-consumption", dict(rows_ahead=worst, chunk=c_eff, largest_row_group=biggest, n=n))
            if sum(e["rows"] for e in groups) != n * passes_expected and not partial:
                bad("request:row-groups-do-not-cover-input", dict(rows=sum(e["rows"] for e in groups), n=n))
            cols_req = {tuple(e["columns"]) if e["columns"] else None for e in groups}
            if None in cols_req:
                bad("request:all-columns-read", {})
            nreq_pass = ng
        else:  # random
            draws = [e["size"] for e in events if e["op"] == "draw"]
            counters["passes_checked"] = passes_expected
            if draws and max(draws) > max(c_eff, n if mode == "generate" else 0):
                bad("request:longer-than-chunk", dict(what="random", request=max(draws), chunk=c_eff))
            write_draws = draws[1:] if mode == "generate" else draws
            if mode == "generate" and (not draws or draws[0] > n):
                bad("request:probe-larger-than-input", dict(draws=draws[:3], n=n))
            if any(d > c_eff for d in write_draws):
                bad("request:longer-than-chunk", dict(what="random", request=max(write_draws), chunk=c_eff))
            inner = [e["size"] for e in events if e["op"] == "draw_coords"]
            if inner and sum(inner) != sum(draws):
                bad("request:points-drawn-differ-from-points-requested", dict(drawn=sum(inner), requested=sum(draws), n=n))
            if sum(write_draws) != n and not (partial and sum(write_draws) < n):
                bad("request:row-requested-wrong-total", dict(total=sum(write_draws), n=n, chunk=c_eff))
            nreq_pass = len(write_draws)

        out.append(result(HELD, cls=f"{source}/{mode}/w{workers}", counters=counters, nontrivial=nreq_pass >= 2,
                          sample=dict(case=case, requests_per_pass=nreq_pass, first_events=events[:4], handed=handed[:6])))
        return out


CHECK = C18()
