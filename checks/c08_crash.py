"""C08 — a crash never leaves a cache that is silently wrong.

Fault + recovery monitor (fault_enumeration): every cache-writing workload is
traced once, then replayed once per file-system operation and killed with
SIGKILL on entry to that operation (engines/crashpoint.py).  Each surviving
on-disk state (de-duplicated by tree hash) is handed to recovery probes in a
forked process; a probe that *succeeds* must behave as if the interrupted step
had completed or never started."""

from __future__ import annotations

import hashlib
import os
import shutil
import warnings
from pathlib import Path

import numpy as np

from checks.c09_failstop import tree_digest
from engines import crashpoint
from engines.procwatch import run_forked
from vlib import cats, gen
from vlib.core import ERROR, HELD, VIOLATED, Check, Scratch, result

EDGES_A = [0.1, 0.4, 0.7, 1.0]
EDGES_B = [0.1, 0.3, 0.6, 1.0]  # same bin count
EDGES_C = [0.1, 0.55, 1.0]  # other bin count
WORKLOADS = [
    "create_fresh", "create_overwrite", "create_buffered", "create_overwrite_buffered", "reopen_compute_meta", "trees_fresh", "trees_other_edges", "trees_other_closed",
    "trees_other_count", "trees_forced", "trees_forced_other_edges", "trees_unbinned_over_binned", "measure_over_cached",
    "corrfunc_file_fresh", "corrfunc_file_over_old", "corrdata_files_fresh", "corrdata_files_over_old",
    "histdata_files_over_old", "config_file_fresh", "config_file_over_old", "corrdata_files_dotted_over_old",
    "histdata_files_globchars_over_old",
    # older results of which only some files are left (an earlier interrupted write, a user tidying up): mask = .dat .smp .cov
    "corrdata_files_over_partial:011", "corrdata_files_over_partial:010", "corrdata_files_over_partial:101",
    "corrdata_files_over_partial:110", "corrdata_files_over_partial:001", "histdata_files_over_partial:011",
    "create_many_patches",
]


def digest_records(cat):
    rows = np.concatenate([cat[p].load_data() for p in cat])
    srt = np.sort(rows, order=list(rows.dtype.names))
    per_patch = {int(p): hashlib.sha1(np.sort(cat[p].load_data(), order=list(rows.dtype.names)).tobytes()).hexdigest() for p in cat}
    return hashlib.sha1(srt.tobytes()).hexdigest(), per_patch


def digest_corrfuncs(cfs):
    hsh = hashlib.sha1()
    for cf in cfs:
        for kind in ("dd", "dr", "rd", "rr"):
            nc = getattr(cf, kind)
            if nc is not None:
                hsh.update(nc.counts.counts.tobytes() + nc.sum_weights.sum_weights1.tobytes() + nc.sum_weights.sum_weights2.tobytes())
    return hsh.hexdigest()


class World:
    """Deterministic inputs of one workload family."""

    def __init__(self, seed):
        rng = np.random.default_rng([seed, 8])
        self.P = 3
        r = np.deg2rad(0.7)
        self.centres = cats.layout_centres(rng, self.P, r * 1.5)

        def table(n_each, z=True):
            xyz, _ = cats.points_around(rng, self.centres, n_each, r)
            xyz = np.concatenate([xyz, self.centres])
            ra, dec = gen.xyz_to_radec(xyz)
            n = len(ra)
            zz = rng.uniform(0.1, 1.0, n)
            zz[rng.choice(n, n // 4, replace=False)] = rng.choice(np.unique(EDGES_A + EDGES_B + EDGES_C), n // 4)
            return cats.table(ra, dec, z=zz if z else None, w=rng.uniform(0.5, 2.0, n))

        self.new = table(28)
        self.old = table(20)
        self.unk = table(25, z=False)
        self.ur = table(25, z=False)
        self.ref2 = table(22)
        self.big = table(300)  # patch files larger than one I/O buffer (8 KiB): they reach the disk in several writes

    def cobj(self):
        return cats.coords_obj(self.centres)


def make_cfg(edges, closed="right"):
    from yaw import Configuration

    return Configuration.create(rmin=[0.05, 0.2], rmax=[0.5, 1.0], unit="deg", edges=edges, closed=closed)


class C08(Check):
    id = "C08"
    level = "fault_enumeration"
    rule = (
        "workloads {create fresh, create with overwrite over an older catalog, reopen with metadata computation, build "
        "trees fresh, rebuild with other edges / other closed side / other bin count / forced / unbinned over binned, a "
        "measurement over cached trees, CorrFunc.to_file fresh and over an older file, CorrData/HistData.to_files fresh and "
        "over older files, Configuration.to_file fresh and over an older file}: each is traced with strace, then replayed "
        "and SIGKILLed on entry to EVERY file-system operation touching the state directory (openat, mkdir, write, "
        "pwrite64, unlink(at), rmdir, rename, ftruncate, close); surviving states are de-duplicated by tree hash and probed "
        "in a forked process: Catalog(dir) must raise or hold exactly the old or the new record set; measurements with the "
        "interrupted and with the previously cached configuration must raise or equal the fresh-cache result; result files "
        "must raise or read back as exactly the old or the new object; plus the parallel creation pipeline killed as a "
        "whole process group at sampled instants (8 x 2 quick, 20 x 10 thorough). exhaustive per workload (quick: 10 workloads, "
        "thorough: all 19). non-trivial = a distinct surviving state was probed; distinct = (workload, state hash)"
    )
    assumptions = [
        "crash model = process death at system-call boundaries (page cache survives): no torn or reordered writes",
        "single-process workloads (YAW_NUM_THREADS=1) so that one process owns all writes",
        "injector self-check: the killed run's operations must be a prefix of the reference trace, else the point is inconclusive",
    ]
    floor_nontrivial = 10
    required_counters = ("crash_points_injected", "distinct_states_probed", "recovery_probes")
    shards = (14, 16)
    budget = (300, 1200)
    exhaustive = True

    def cases(self, tier, seed):
        if tier == "quick":
            for w in ("create_fresh", "create_overwrite", "create_buffered", "create_overwrite_buffered", "trees_fresh", "trees_other_edges",
                      "trees_forced_other_edges", "measure_over_cached", "corrfunc_file_fresh", "corrdata_files_dotted_over_old",
                      "config_file_over_old", "corrdata_files_over_partial:011", "corrdata_files_over_partial:110", "create_many_patches"):
                for s in range(4):
                    yield dict(workload=w, shard=s, of=4, stride=1, seed=seed)
            for s in range(2):
                yield dict(workload="parallel_kill", shard=s, of=2, samples=8, seed=seed)
        else:
            for w in WORKLOADS:
                for s in range(4):
                    yield dict(workload=w, shard=s, of=4, stride=1, seed=seed)
            for s in range(10):
                yield dict(workload="parallel_kill", shard=s, of=10, samples=20, seed=seed)

    def setup_worker(self):
        warnings.simplefilter("ignore")
        import yaw  # noqa: F401
        import h5py  # noqa: F401

    # ------------------------------------------------------------------
    def execute(self, case):
        out = []
        counters = {}
        wname = case["workload"]

        def bad(mech, detail):
            out.append(result(VIOLATED, mechanism=mech, detail=dict(case=case, **detail), nontrivial=False))

        world = World(case["seed"])
        os.environ["YAW_NUM_THREADS"] = "1"
        if wname == "parallel_kill":
            return self._parallel_kill(case, world)
        with Scratch("c08") as tmp:
            state = tmp / "state"
            comp = tmp / "companions"
            comp.mkdir()
            unk = cats.create(comp / "unk", world.unk, centers=world.cobj())
            ur = cats.create(comp / "ur", world.ur, centers=world.cobj())
            ref2 = cats.create(comp / "ref2", world.ref2, centers=world.cobj())
            _ = (unk, ur, ref2)
            spec = self._spec(wname, world, state, comp, tmp)
            # ---- references ---------------------------------------------------------------------
            refs = spec["references"]()
            # ---- phase 1: trace --------------------------------------------------------------------
            def fresh_state():
                shutil.rmtree(state, ignore_errors=True)
                state.mkdir()
                spec["prepare"]()

            fresh_state()
            trace_root = spec.get("trace_root", state)
            status, ops = crashpoint.trace(spec["workload"], trace_root, tmp / "trace0.txt")
            if not ops:
                return [result(ERROR, detail=f"no file-system operations traced for {wname} (status {status})", nontrivial=False)]
            counters["operations_in_trace"] = len(ops) if case["shard"] == 0 else 0
            # completed run must satisfy the probe as 'new'
            seen_states = {}
            unresolved = []
            mine = [op for op in ops if op.index % case["of"] == case["shard"] and (op.index // case["of"]) % case["stride"] == 0]
            if case["shard"] == 0:
                mine = mine + [None]  # the completed workload (no crash)
            for op in mine:
                fresh_state()
                if op is None:
                    crashpoint.trace(spec["workload"], trace_root, tmp / "trace_done.txt")
                    label = "completed"
                else:
                    ok, info = False, ""
                    for attempt in range(4):
                        # the workload contains one subprocess call (lscpu) whose pipe handling makes the
                        # number of close() calls before a point vary in rare runs: retry on a fresh state
                        if attempt:
                            fresh_state()
                            counters["injector_retries"] = counters.get("injector_retries", 0) + 1
                        ok, info = crashpoint.crash_at(spec["workload"], trace_root, tmp / f"trace_{op.index}.txt", op, ops[: op.index], ops[op.index + 1:])
                        if ok:
                            break
                    counters["crash_points_injected"] = counters.get("crash_points_injected", 0) + 1
                    if not ok:
                        counters["injector_selfcheck_failed"] = counters.get("injector_selfcheck_failed", 0) + 1
                        unresolved.append(f"{wname} op {op.index} {op.name}: {info}")
                        continue
                    label = f"before op {op.index}: {op.text[:120]}"
                dig = tree_digest(state)
                if dig in seen_states:
                    continue
                seen_states[dig] = label
                counters["distinct_states_probed"] = counters.get("distinct_states_probed", 0) + 1
                for probe_name, probe in spec["probes"].items():
                    # every probe works on its own copy of the surviving state
                    pdir = tmp / "probe"
                    shutil.rmtree(pdir, ignore_errors=True)
                    shutil.copytree(state, pdir, symlinks=True)
                    res = run_forked(lambda probe=probe, pdir=pdir: probe(pdir), workdir=tmp, wall_cap=120)
                    counters["recovery_probes"] = counters.get("recovery_probes", 0) + 1
                    if res["outcome"] == "raised":
                        counters["probes_raised"] = counters.get("probes_raised", 0) + 1
                        continue
                    if res["outcome"] == "quiescent":
                        bad(f"recovery-hangs:{wname}:{probe_name}", dict(state=label))
                        continue
                    if res["outcome"] != "returned":
                        out.append(result(ERROR, detail=f"probe {probe_name}: {res}", nontrivial=False))
                        continue
                    verdict = spec["judge"](probe_name, res["value"], refs)
                    if verdict is not None:
                        bad(f"silently-wrong:{wname}:{probe_name}:{verdict}", dict(state=label, value=str(res["value"])[:300]))
                    else:
                        counters["probes_succeeded_consistent"] = counters.get("probes_succeeded_consistent", 0) + 1
                    if op is None and res["outcome"] != "returned":
                        bad(f"completed-workload-not-usable:{wname}:{probe_name}", {})
        if len(unresolved) > max(1, 0.05 * len(mine)):
            out.append(result(ERROR, detail=f"injector self-check failed for {len(unresolved)} of {len(mine)} points: {unresolved[:2]}", nontrivial=False))
        out.append(result(HELD, cls=wname, counters=counters, key=f"{wname}/{case['shard']}",
                          nontrivial=counters.get("distinct_states_probed", 0) > 0,
                          sample=dict(case=case, operations=len(ops), states=list(seen_states.values())[:5])))
        return out

    # ------------------------------------------------------------------
    def _parallel_kill(self, case, world):
        """The parallel creation pipeline (reader, manager, pool, writer process) killed as a whole
        process group at sampled instants; the surviving directory is probed like the others."""
        import signal
        import time

        from yaw import Catalog

        rng = np.random.default_rng([case["seed"], 88, case["shard"]])
        out = []
        counters = {}
        states = set()

        def bad(mech, detail):
            out.append(result(VIOLATED, mechanism=mech, detail=dict(case=case, **detail), nontrivial=False))

        with Scratch("c08p") as tmp:
            rec = tmp / "rec"
            rec.mkdir()
            new_ref = digest_records(cats.create(rec / "new", world.new, centers=world.cobj(), chunksize=40))
            old_ref = digest_records(cats.create(rec / "old", world.old, centers=world.cobj()))
            state = tmp / "state"

            def launch(over_old, die_at_chunk=None):
                shutil.rmtree(state, ignore_errors=True)
                state.mkdir()
                if over_old:
                    cats.create(state / "ref", world.old, centers=world.cobj())
                pid = os.fork()
                if pid == 0:
                    try:
                        os.setsid()
                        devnull = os.open(os.devnull, os.O_RDWR)
                        os.dup2(devnull, 1)
                        os.dup2(devnull, 2)
                        os.environ["YAW_NUM_THREADS"] = "3"
                        if die_at_chunk is not None:
                            # the main process is killed (nothing else) when it asks for its k-th chunk, after the
                            # earlier chunks had time to travel through the workers to the writer process
                            from yaw.catalog import readers

                            orig_next = readers.DataChunkReader.__next__
                            calls = [0]

                            def dying_next(self_):
                                calls[0] += 1
                                if calls[0] > die_at_chunk:
                                    time.sleep(0.4)
                                    os.kill(os.getpid(), signal.SIGKILL)
                                return orig_next(self_)

                            readers.DataChunkReader.__next__ = dying_next
                        cats.create(state / "ref", world.new, centers=world.cobj(), chunksize=40, overwrite=over_old, max_workers=3)
                    finally:
                        os._exit(0)
                return pid

            # duration of an undisturbed run
            t0 = time.time()
            pid = launch(False)
            os.waitpid(pid, 0)
            duration = time.time() - t0
            for i in range(case["samples"]):
                over_old = bool(i % 2)
                main_only = i % 4 == 3
                pid = launch(over_old, die_at_chunk=(1 + (i // 4) % 2) if main_only else None)
                if not main_only:
                    time.sleep(float(rng.uniform(0.0, duration * 1.05)))
                if main_only:
                    # only the main process dies (OOM killer, kill -9 <pid>): its helper processes live on for a
                    # while and may still write; they get a few seconds, then the rest of the group is removed
                    os.waitpid(pid, 0)  # it kills itself
                    time.sleep(3.5)
                    counters["main_only_kills"] = counters.get("main_only_kills", 0) + 1
                try:
                    os.killpg(pid, signal.SIGKILL)
                except ProcessLookupError:
                    pass
                try:
                    os.waitpid(pid, 0)
                except ChildProcessError:
                    pass
                time.sleep(0.02)
                counters["crash_points_injected"] = counters.get("crash_points_injected", 0) + 1
                dig = tree_digest(state)
                if dig in states:
                    continue
                states.add(dig)
                counters["distinct_states_probed"] = counters.get("distinct_states_probed", 0) + 1
                pdir = tmp / "probe"
                shutil.rmtree(pdir, ignore_errors=True)
                shutil.copytree(state, pdir, symlinks=True)

                def probe():
                    cat = Catalog(pdir / "ref", max_workers=1)
                    tot, per = digest_records(cat) if len(cat) else ("empty", {})
                    return dict(all=tot, per_patch={str(k): v for k, v in per.items()})

                res = run_forked(probe, workdir=tmp, wall_cap=120)
                counters["recovery_probes"] = counters.get("recovery_probes", 0) + 1
                if res["outcome"] == "raised":
                    counters["probes_raised"] = counters.get("probes_raised", 0) + 1
                    continue
                if res["outcome"] == "quiescent":
                    bad("recovery-hangs:parallel_kill:open", {})
                    continue
                if res["outcome"] != "returned":
                    out.append(result(ERROR, detail=str(res), nontrivial=False))
                    continue
                v = res["value"]
                ok = any(v["all"] == r[0] and v["per_patch"] == {str(k): x for k, x in r[1].items()}
                         for r in ([new_ref, old_ref] if over_old else [new_ref]))
                if ok:
                    counters["probes_succeeded_consistent"] = counters.get("probes_succeeded_consistent", 0) + 1
                else:
                    bad("silently-wrong:parallel_kill:open:" + ("opens-as-empty-catalog" if v["all"] == "empty" else "records-neither-old-nor-new"),
                        dict(over_old=over_old, sample=i))
        out.append(result(HELD, cls="parallel_kill", counters=counters, key=f"parallel_kill/{case['shard']}",
                          nontrivial=counters.get("distinct_states_probed", 0) > 0,
                          sample=dict(case=case, run_duration_s=round(duration, 3), distinct_states=len(states))))
        return out

    # ------------------------------------------------------------------
    def _spec(self, wname, world, state, comp, tmp):
        """prepare(): prior disk state; workload(): the interrupted step; probes; judge."""
        from yaw import Catalog

        ref_dir = state / "ref"
        if "buffered" in wname:
            world.new = world.big
        cfgA, cfgB, cfgC = make_cfg(EDGES_A), make_cfg(EDGES_B), make_cfg(EDGES_C)
        cfgA_left = make_cfg(EDGES_A, "left")

        def measure(cat_dir, cfg, comp_dir, as_unknown=False):
            import yaw

            ref = Catalog(cat_dir, max_workers=1)
            if as_unknown:
                # the catalog under test plays the unknown sample (its trees are requested without binning)
                return digest_corrfuncs(yaw.crosscorrelate(cfg, Catalog(comp_dir / "ref2", max_workers=1), ref,
                                                           unk_rand=Catalog(comp_dir / "ur", max_workers=1), max_workers=1))
            return digest_corrfuncs(yaw.crosscorrelate(cfg, ref, Catalog(comp_dir / "unk", max_workers=1),
                                                       unk_rand=Catalog(comp_dir / "ur", max_workers=1), max_workers=1))

        def fresh_measure(table, cfg, tag, as_unknown=False):
            d = tmp / f"fresh-{tag}"
            shutil.rmtree(d, ignore_errors=True)
            d.mkdir()
            # created exactly like the workload creates it (same chunking => same row order in the
            # patch files => bit-identical floating-point sums)
            cats.create(d / "ref", table, centers=world.cobj(), chunksize=40 if table is world.new and wname.startswith("create") else None)
            shutil.copytree(comp, d / "comp")
            val = measure(d / "ref", cfg, d / "comp", as_unknown=as_unknown)
            shutil.rmtree(d)
            return val

        def record_refs():
            d = tmp / "fresh-rec"
            shutil.rmtree(d, ignore_errors=True)
            d.mkdir()
            new = digest_records(cats.create(d / "new", world.new, centers=world.cobj()))
            old = digest_records(cats.create(d / "old", world.old, centers=world.cobj()))
            shutil.rmtree(d)
            return dict(new=new, old=old)

        def probe_open(pdir):
            cat = Catalog(pdir / "ref", max_workers=1)
            tot, per = digest_records(cat) if len(cat) else ("empty", {})
            return dict(keys=[int(k) for k in cat.keys()], all=tot, per_patch={str(k): v for k, v in per.items()},
                        meta_n=[int(x) for x in cat.get_num_records()])

        def probe_measure(cfg, as_unknown=False):
            def run(pdir):
                # companions are copied next to the state so that the probe never touches shared directories
                cdir = pdir / "_probe_comp"
                shutil.copytree(comp, cdir)
                return measure(pdir / "ref", cfg, cdir, as_unknown=as_unknown)
            return run

        def judge_catalog(pname, value, refs, allowed):
            if pname == "open":
                for which in allowed:
                    tot, per = refs["records"][which]
                    if value["all"] == tot and value["per_patch"] == {str(k): v for k, v in per.items()}:
                        return None
                if value["all"] == "empty":
                    return "opens-as-empty-catalog"
                return "records-neither-old-nor-new"
            cfgname = pname.split(":")[1]
            for which in allowed:
                if value == refs["measure"][(which, cfgname)]:
                    return None
            return f"measurement-differs-from-fresh:{cfgname}"

        spec = {}
        cfgs = {"A": cfgA, "B": cfgB, "C": cfgC, "Aleft": cfgA_left}

        def catalog_refs(which_records, cfgnames):
            def make():
                refs = dict(records=record_refs(), measure={})
                for w in which_records:
                    for c in cfgnames:
                        refs["measure"][(w, c)] = fresh_measure(getattr(world, w), cfgs[c.removeprefix("unk")], f"{w}-{c}",
                                                                as_unknown=c.startswith("unk"))
                return refs
            return make

        if wname in ("create_fresh", "create_overwrite", "create_buffered", "create_overwrite_buffered"):
            def prepare():
                if wname in ("create_overwrite", "create_overwrite_buffered"):
                    c = cats.create(ref_dir, world.old, centers=world.cobj())
                    c.build_trees(cfgA.binning.edges, closed="right", max_workers=1)

            def workload():
                if wname in ("create_buffered", "create_overwrite_buffered"):
                    # the documented lower-level entry point with per-patch write buffers: records reach
                    # the disk only when a buffer fills up or the writer is closed
                    import pandas as pd

                    import yaw.catalog.catalog as ycat
                    from yaw.catalog import readers

                    reader = readers.DataFrameReader(pd.DataFrame(world.new), ra_name="ra", dec_name="dec", weight_name="w",
                                                     redshift_name="z", chunksize=40)
                    ycat.write_patches(ref_dir, reader, world.cobj(), overwrite=(wname == "create_overwrite_buffered"), progress=False,
                                       max_workers=1, buffersize=8)  # smaller than a patch: buffers are flushed while reading and at close
                    return
                cats.create(ref_dir, world.new, centers=world.cobj(), chunksize=40, overwrite=(wname == "create_overwrite"))

            allowed = ("new", "old") if wname in ("create_overwrite", "create_overwrite_buffered") else ("new",)
            spec = dict(prepare=prepare, workload=workload, references=catalog_refs(allowed, ["A"]),
                        probes={"open": probe_open, "measure:A": probe_measure(cfgA)},
                        judge=lambda p, v, r: judge_catalog(p, v, r, allowed))
        elif wname == "create_many_patches":
            # more patches than fit into one write buffer of the id list (2 bytes each): 2100 one-object patches.
            # Only the operations on the id list itself are crash points here (the rest is covered by create_fresh).
            nmany = 2100
            many = cats.table(np.deg2rad(np.linspace(0.0, 300.0, nmany)), np.zeros(nmany), w=np.arange(nmany) + 0.5, patch=np.arange(nmany))

            def workload():
                cats.create(ref_dir, many)

            def many_refs():
                d = tmp / "fresh-many"
                shutil.rmtree(d, ignore_errors=True)
                val = digest_records(cats.create(d, many))
                shutil.rmtree(d)
                return dict(records=dict(new=val), measure={})

            spec = dict(prepare=lambda: None, workload=workload, references=many_refs, probes={"open": probe_open},
                        judge=lambda p, v, r: judge_catalog(p, v, r, ("new",)), trace_root=str(ref_dir / "patch_ids") + "*")
        elif wname == "reopen_compute_meta":
            def prepare():
                cats.create(ref_dir, world.new, centers=world.cobj())
                for f in ref_dir.glob("patch_*/meta.yml"):
                    f.unlink()

            def workload():
                Catalog(ref_dir, max_workers=1)

            spec = dict(prepare=prepare, workload=workload, references=catalog_refs(("new",), ["A"]),
                        probes={"open": probe_open, "measure:A": probe_measure(cfgA)},
                        judge=lambda p, v, r: judge_catalog(p, v, r, ("new",)))
        elif wname.startswith("trees_") or wname == "measure_over_cached":
            prior = {"trees_fresh": None, "trees_other_edges": "A", "trees_other_closed": "A", "trees_other_count": "A",
                     "trees_forced": "A", "trees_forced_other_edges": "A", "trees_unbinned_over_binned": "A",
                     "measure_over_cached": "A"}[wname]
            target = {"trees_fresh": "A", "trees_other_edges": "B", "trees_other_closed": "Aleft", "trees_other_count": "C",
                      "trees_forced": "A", "trees_forced_other_edges": "B", "trees_unbinned_over_binned": None,
                      "measure_over_cached": "B"}[wname]

            def prepare():
                c = cats.create(ref_dir, world.new, centers=world.cobj())
                if prior:
                    c.build_trees(cfgs[prior].binning.edges, closed=cfgs[prior].binning.closed, max_workers=1)
                if wname == "measure_over_cached":
                    shutil.copytree(comp, state / "_comp")

            def workload():
                c = Catalog(ref_dir, max_workers=1)
                if wname == "measure_over_cached":
                    measure(ref_dir, cfgs[target], state / "_comp")
                elif target is None:
                    c.build_trees(None, max_workers=1)
                else:
                    c.build_trees(cfgs[target].binning.edges, closed=cfgs[target].binning.closed,
                                  force=wname.startswith("trees_forced"), max_workers=1)

            names = sorted({n for n in (prior, target, "A", "B") if n})
            # ... and as the unknown sample of a measurement (trees requested without binning)
            spec = dict(prepare=prepare, workload=workload, references=catalog_refs(("new",), names + ["unkA"]),
                        probes=dict({"open": probe_open, "measure:unkA": probe_measure(cfgA, as_unknown=True)},
                                    **{f"measure:{n}": probe_measure(cfgs[n]) for n in names}),
                        judge=lambda p, v, r: judge_catalog(p, v, r, ("new",)))
        else:
            spec = self._file_spec(wname, world, state)
        return spec

    def _file_spec(self, wname, world, state):
        from yaw import Configuration, CorrData, HistData
        from yaw.binning import Binning
        from yaw.correlation.corrfunc import CorrFunc

        rng = np.random.default_rng(5)
        binning = Binning(EDGES_A, closed="right")

        def mk_corrfunc(seed):
            return gen.gen_corrfunc(np.random.default_rng(seed), 3, 4, False, members=["dr", "rr"], sparsity=0.0)

        def mk_data(cls, seed):
            r = np.random.default_rng(seed)
            return cls(binning, r.normal(0, 1, 3), r.normal(0, 1, (5, 3)))

        over_old = wname.endswith("over_old") or "over_partial" in wname
        partial_mask = wname.split(":")[1] if "over_partial" in wname else None
        if wname.startswith("corrfunc_file"):
            new, old = mk_corrfunc(1), mk_corrfunc(2)
            path = state / "result.hdf"
            write = lambda obj: obj.to_file(path)  # noqa: E731
            read = lambda p: CorrFunc.from_file(p / "result.hdf")  # noqa: E731
            dig = lambda o: digest_corrfuncs([o]) + str(sorted(o.to_dict()))  # noqa: E731
        elif wname.startswith("corrdata_files") or wname.startswith("histdata_files"):
            cls = CorrData if wname.startswith("corrdata") else HistData
            new, old = mk_data(cls, 1), mk_data(cls, 2)
            # prefixes as users write them: plain, with a dot in the last component, with glob characters
            stem = "nz_zmax1.2" if "dotted" in wname else "nz[a]" if "globchars" in wname else "result"
            path = state / stem
            write = lambda obj: obj.to_files(path)  # noqa: E731
            read = lambda p: cls.from_files(p / stem)  # noqa: E731

            def dig(o):
                # what a reader gets: values to the precision of the text format
                return hashlib.sha1(np.round(o.data, 6).tobytes() + np.round(o.samples, 6).tobytes()
                                    + np.round(o.binning.edges, 6).tobytes()).hexdigest()
        else:
            new = Configuration.create(rmin=1, rmax=5, unit="deg", zmin=0.1, zmax=1.0, num_bins=4)
            old = Configuration.create(rmin=[2, 3], rmax=[6, 9], unit="arcmin", edges=[0.2, 0.5, 0.9], closed="left")
            path = state / "config.yml"
            write = lambda obj: obj.to_file(path)  # noqa: E731
            read = lambda p: Configuration.from_file(p / "config.yml")  # noqa: E731
            dig = lambda o: repr(o.to_dict())  # noqa: E731
        _ = rng

        def prepare():
            if over_old:
                write(old)
            if partial_mask:
                for keep, suffix in zip(partial_mask, (".dat", ".smp", ".cov")):
                    if keep == "0":
                        path.with_suffix(suffix).unlink()

        def workload():
            write(new)

        def probe(pdir):
            return dig(read(pdir))

        def judge(pname, value, refs):
            ok = [refs["new"]] + ([refs["old"]] if over_old and not partial_mask else [])
            if partial_mask and refs.get("prior") is not None:
                ok.append(refs["prior"])  # "never started": what the prior state itself reads as, if it reads at all
            return None if value in ok else "object-neither-old-nor-new"

        def references():
            # digest what a complete write reads back as (text formats are lossy by design)
            import tempfile

            out = {}
            for tag, obj in (("new", new), ("old", old)):
                d = Path(tempfile.mkdtemp(dir=state.parent))
                saved = path
                try:
                    if hasattr(obj, "to_files") and not isinstance(obj, Configuration) and not isinstance(obj, CorrFunc):
                        obj.to_files(d / saved.name)
                    else:
                        obj.to_file(d / saved.name)
                    out[tag] = dig(read(d))
                finally:
                    shutil.rmtree(d)
            if partial_mask:
                d = Path(tempfile.mkdtemp(dir=state.parent))
                try:
                    old.to_files(d / path.name)
                    for keep, suffix in zip(partial_mask, (".dat", ".smp", ".cov")):
                        if keep == "0":
                            (d / path.name).with_suffix(suffix).unlink()
                    try:
                        out["prior"] = dig(read(d))
                    except Exception:
                        out["prior"] = None
                finally:
                    shutil.rmtree(d)
            return out

        return dict(prepare=prepare, workload=workload, references=references, probes={"read": probe}, judge=judge)


CHECK = C08()
