"""C07 — measurements are independent of what was cached before.

Differential monitor over histories: after any sequence of tree builds,
measurements, reopenings and role swaps on the same cache directories the final
measurement must be bit-identical to the one obtained on freshly created
caches of the same records."""

from __future__ import annotations

import itertools
import os
import warnings

import numpy as np

from vlib import cats, gen
from vlib.core import HELD, VIOLATED, Check, Scratch, result, case_bits

BASE = np.array([0.1, 0.3, 0.55, 0.8, 1.0])


def config_pool():
    e = BASE
    ulp = e.copy()
    ulp[2] = np.nextafter(ulp[2], 2.0)
    tiny = e.copy()
    tiny[1] += 1e-9
    shifted = e.copy()
    shifted[1:-1] += 0.03
    sup = np.sort(np.concatenate([e, (e[:-1] + e[1:]) / 2]))
    pool = {
        "E-right": dict(edges=e, closed="right"),
        "E-left": dict(edges=e, closed="left"),
        "E-shifted": dict(edges=shifted, closed="right"),
        "E-ulp": dict(edges=ulp, closed="right"),
        "E-1e-9": dict(edges=tiny, closed="right"),
        "E-subset": dict(edges=e[::2], closed="right"),
        "E-superset": dict(edges=sup, closed="right"),
        "one-bin": dict(edges=e[[0, -1]], closed="right"),
        "one-bin-left": dict(edges=e[[0, -1]], closed="left"),
        "E-right-other-scales": dict(edges=e, closed="right", scales=([0.05], [0.5])),
        # physical scales: the angle (and with it the pruning of distant patch pairs) depends on the centre of the
        # lowest bin, not on zmin: same limits and scales, other first bin
        "Mpc-E": dict(edges=e, closed="right", scales=([1.0], [14.0]), unit="Mpc"),
        "Mpc-E-subset": dict(edges=e[::2], closed="right", scales=([1.0], [14.0]), unit="Mpc"),
    }
    return pool


POOL = config_pool()
NAMES = list(POOL)
CORE6 = ["E-right", "E-left", "E-ulp", "E-subset", "one-bin", "E-shifted"]


def all_edge_values():
    return np.unique(np.concatenate([c["edges"] for c in POOL.values()]))


def make_config(name):
    from yaw import Configuration

    c = POOL[name]
    rmin, rmax = c.get("scales", ([0.02, 0.1], [0.3, 1.0]))
    return Configuration.create(rmin=rmin, rmax=rmax, unit=c.get("unit", "deg"), edges=c["edges"].tolist(), closed=c["closed"])


def corrfunc_bytes(cfs):
    out = []
    for cf in cfs:
        for kind in ("dd", "dr", "rd", "rr"):
            nc = getattr(cf, kind)
            if nc is None:
                out.append(b"-")
                continue
            out.append(nc.counts.counts.tobytes() + nc.sum_weights.sum_weights1.tobytes() + nc.sum_weights.sum_weights2.tobytes()
                       + nc.counts.binning.edges.tobytes() + str(nc.counts.binning.closed).encode())
    return out


class C07(Check):
    id = "C07"
    level = "exploration"
    rule = (
        "histories of 0..6 operations over {crosscorrelate / autocorrelate with a configuration from a colliding pool "
        "(same edges other closed side, edges differing by 1 ulp and by 1e-9, same bin count other edges, sub-/superset "
        "of edges, one bin, other scales only), build_trees(edges|None, closed, force), reopen Catalog(dir), swap the "
        "binned/unbinned roles of catalogs that all carry redshifts, redshift histogram, BinnedTrees.build on a single patch "
        "(patches of one catalog then cache different binnings)}, followed by a final cross- and "
        "autocorrelation whose arrays are compared bitwise with the same measurement on freshly created caches. "
        "Redshifts include every edge value of every pool configuration exactly, so a wrongly reused tree changes counts. "
        "All histories of <= 2 measurements over a 6-configuration pool are enumerated (thorough; quick: a seeded third); "
        "longer ones are sampled. non-trivial = history of >= 1 operation; distinct = (history, final configuration)"
        ' Further operations: rejected requests (leafsize=0, binned use of a sample without redshifts), physical scales on a gapped footprint.'
    )
    assumptions = ["catalog creation is deterministic in sequential mode (fresh and history caches hold identical bytes; checked)"]
    floor_nontrivial = 30
    required_counters = ("histories_run", "final_measurements_compared", "edge_valued_redshifts")
    shards = (14, 16)
    budget = (300, 700)

    def cases(self, tier, seed):
        q = tier == "quick"
        rng = np.random.default_rng([seed, 7])
        # exhaustive stratum: histories of <= 2 measurements over the 6-config core pool
        strat = []
        for final in CORE6:
            for length in (1, 2):
                for hist in itertools.product(CORE6, repeat=length):
                    strat.append(dict(kind="enumerated", ops=[["cross" if i % 2 == 0 else "auto", h] for i, h in enumerate(hist)], final=final))
        if q:
            idx = rng.choice(len(strat), 60, replace=False)
            strat = [strat[i] for i in sorted(idx)]
        # two handles on the same cache: measure A through the first, B through a freshly opened one,
        # then A again through the first (its in-memory state must not outlive the other handle's rebuild)
        pairs_ = [(a, b) for a in CORE6 for b in CORE6 if a != b]
        if q:
            pairs_ = [pairs_[i] for i in sorted(rng.choice(len(pairs_), 12, replace=False))]
        for a, b in pairs_:
            strat.append(dict(kind="two-handles", ops=[["cross", a], ["cross_new", b]], final=a))
        # same edges, other closed side (also for the one-bin binnings): the cached marker must tell them apart
        for a, b in (("E-right", "E-left"), ("E-left", "E-right"), ("one-bin", "one-bin-left"), ("one-bin-left", "one-bin")):
            for op in ("cross", "auto", "build"):
                strat.append(dict(kind="closed-pairs", ops=[[op, a] if op != "build" else ["build", "ref", a, False]], final=b))
        # compact patches with gaps between them: which patch pairs are visited depends on the angular scale
        for a, b in (("Mpc-E-subset", "Mpc-E"), ("Mpc-E", "Mpc-E-subset"), ("E-right-other-scales", "Mpc-E"), ("Mpc-E-subset", "E-right")):
            for op in ("cross", "auto"):
                strat.append(dict(kind="gapped-footprint", ops=[[op, a]], final=b, gapped=True))
        for a in CORE6[:4]:
            for cat_ in ("ref", "unk"):
                strat.append(dict(kind="rejected-call", ops=[["cross", a], ["build_fail", cat_, CORE6[(CORE6.index(a) + 1) % 6]], ["swap", a]], final=a))
        # mixed caches: measure with A, rebuild ONE patch of a binned catalog for B, measure with A or B
        mixed = [(a, b, cat, pid) for a in CORE6 for b in CORE6 if a != b for cat in ("ref", "rr") for pid in (0, 1, 2)]
        if q:
            mixed = [mixed[i] for i in sorted(rng.choice(len(mixed), 24, replace=False))]
        for j, (a, b, cat, pid) in enumerate(mixed):
            strat.append(dict(kind="mixed-patches", ops=[["cross", a], ["build_patch", cat, pid, b, False]], final=[a, b][j % 2]))
        for i, c in enumerate(strat):
            c["seed"] = seed * 1009 + (i % 7)
            yield c
        for i in range(160 if q else 8000):
            length = int(rng.integers(1, 7))
            ops = []
            for _ in range(length):
                k = rng.choice(["cross", "auto", "build", "build_none", "reopen", "swap", "hist", "build_patch", "build_fail"],
                               p=[0.23, 0.11, 0.13, 0.07, 0.16, 0.08, 0.05, 0.10, 0.07])
                if k in ("cross", "auto", "swap", "hist"):
                    ops.append([str(k), str(rng.choice(NAMES))])
                elif k == "build":
                    ops.append(["build", str(rng.choice(["ref", "unk", "rr", "ur"])), str(rng.choice(NAMES)), bool(rng.random() < 0.3)])
                elif k == "build_patch":
                    # the documented per-patch entry point: the trees of ONE patch are rebuilt, so the patches of a
                    # catalog hold trees of different binnings afterwards
                    ops.append(["build_patch", str(rng.choice(["ref", "unk", "rr", "ur"])), int(rng.integers(0, 3)),
                                str(rng.choice(NAMES + ["none"])), bool(rng.random() < 0.3)])
                elif k == "build_fail":
                    # a request the library rejects while it is at work (caught by the caller): it must not leave
                    # the cache in a state that later requests trust
                    ops.append(["build_fail", str(rng.choice(["ref", "unk", "rr", "ur"])), str(rng.choice(NAMES))])
                elif k == "build_none":
                    ops.append(["build_none", str(rng.choice(["ref", "unk", "rr", "ur"])), bool(rng.random() < 0.3)])
                else:
                    ops.append(["reopen", str(rng.choice(["ref", "unk", "rr", "ur"]))])
            yield dict(kind="sampled", ops=ops, final=str(rng.choice(NAMES)), seed=seed * 100003 + i)

    def setup_worker(self):
        warnings.simplefilter("ignore")

    def execute(self, case):
        import yaw
        from yaw import Catalog, HistData

        rng = np.random.default_rng([case["seed"], 77])
        out = []

        def bad(mech, detail):
            out.append(result(VIOLATED, mechanism=mech, detail=dict(case=case, **detail), nontrivial=False))

        P = 3
        r = np.deg2rad(0.7)
        spacing = r * 1.5
        if case.get("gapped") or (case["kind"] == "sampled" and case_bits(case, "gapped") % 4 == 0):
            r = np.deg2rad(0.25)  # same spacing, compact patches
        centres = cats.layout_centres(rng, P, spacing)
        cobj = cats.coords_obj(centres)
        vals = all_edge_values()

        def table(n_each):
            xyz, _ = cats.points_around(rng, centres, n_each, r)
            xyz = np.concatenate([xyz, centres])
            ra, dec = gen.xyz_to_radec(xyz)
            n = len(ra)
            z = rng.uniform(0.05, 1.05, n)
            k = n // 3
            z[rng.choice(n, k, replace=False)] = rng.choice(vals, k)
            return cats.table(ra, dec, z=z, w=rng.uniform(0.5, 2.0, n))

        tabs = dict(ref=table(25), unk=table(30), rr=table(35), ur=table(35))
        noz = case_bits(case, "unknown-without-redshifts") % 3 == 0
        if noz:  # the unknown sample and its randoms carry no redshifts: binned requests on them are rejected (ValueError)
            for k_ in ("unk", "ur"):
                tabs[k_] = {kk: vv for kk, vv in tabs[k_].items() if kk != "z"}
        n_edge = int(sum(np.isin(t["z"], vals).sum() for t in tabs.values() if "z" in t))

        def final_measure(c, name):
            cfg = make_config(name)
            a = yaw.crosscorrelate(cfg, c["ref"], c["unk"], ref_rand=c["rr"], unk_rand=c["ur"], max_workers=1)
            b = yaw.autocorrelate(cfg, c["ref"], c["rr"], count_rr=True, max_workers=1)
            return corrfunc_bytes(a) + corrfunc_bytes(b)

        with Scratch("c07") as tmp:
            fresh = {k: cats.create(tmp / f"fresh-{k}", t, centers=cobj) for k, t in tabs.items()}
            hist = {k: cats.create(tmp / f"hist-{k}", t, centers=cobj) for k, t in tabs.items()}
            for k in tabs:
                for p in fresh[k]:
                    if fresh[k][p].load_data().tobytes() != hist[k][p].load_data().tobytes():
                        bad("creation-not-deterministic", dict(catalog=k))
                        return out
            want = final_measure(fresh, case["final"])
            last_binned = None
            # every handle ever opened on a cache directory stays in use: operations pick one at random
            handles = {k: [v] for k, v in hist.items()}

            class Pick(dict):
                def __getitem__(self_, k):
                    hs = handles[k]
                    return hs[int(rng.integers(len(hs)))]

            hist = Pick()
            mix_workers = case["kind"] == "sampled" and case_bits(case, "mix") % 3 == 0
            try:
                for op in case["ops"]:
                    kind = op[0]
                    nw = int(rng.choice([1, 2])) if mix_workers else 1
                    os.environ["YAW_NUM_THREADS"] = str(nw)
                    if kind == "cross":
                        cfg = make_config(op[1])
                        yaw.crosscorrelate(cfg, hist["ref"], hist["unk"], ref_rand=hist["rr"], unk_rand=hist["ur"], max_workers=nw)
                        last_binned = op[1]
                    elif kind == "cross_new":
                        cfg = make_config(op[1])
                        fresh_handles = {k: Catalog(tmp / f"hist-{k}", max_workers=1) for k in handles}
                        for k, v in fresh_handles.items():
                            handles[k].append(v)
                        yaw.crosscorrelate(cfg, fresh_handles["ref"], fresh_handles["unk"], ref_rand=fresh_handles["rr"],
                                           unk_rand=fresh_handles["ur"], max_workers=nw)
                        last_binned = op[1]
                    elif kind == "auto":
                        cfg = make_config(op[1])
                        yaw.autocorrelate(cfg, hist["ref"], hist["rr"], count_rr=bool(rng.random() < 0.5), max_workers=nw)
                        last_binned = op[1]
                    elif kind == "swap":
                        cfg = make_config(op[1])
                        try:
                            yaw.crosscorrelate(cfg, hist["unk"], hist["ref"], ref_rand=hist["ur"], unk_rand=hist["rr"], max_workers=1)
                            last_binned = f"unbinned-after-{op[1]}"
                        except ValueError:
                            if not noz:
                                raise
                            last_binned = f"rejected-swap-{op[1]}"  # documented refusal: no redshifts in the new reference
                    elif kind == "build_fail":
                        c = POOL[op[2]]
                        try:
                            # leafsize=0 is refused by the tree constructor after the build has started
                            hist[op[1]].build_trees(c["edges"], closed=c["closed"], leafsize=0, max_workers=1)
                        except Exception:
                            last_binned = f"rejected-build-{op[2]}"
                    elif kind == "hist":
                        HistData.from_catalog(hist["ref"], make_config(op[1]), max_workers=1)
                    elif kind == "build":
                        c = POOL[op[2]]
                        try:
                            hist[op[1]].build_trees(c["edges"], closed=c["closed"], force=op[3], max_workers=nw)
                        except ValueError:
                            if not (noz and op[1] in ("unk", "ur")):
                                raise
                        if op[1] in ("ref", "rr"):
                            last_binned = op[2]
                    elif kind == "build_patch":
                        from yaw.binning import Binning
                        from yaw.catalog.trees import BinnedTrees

                        binning = None if op[3] == "none" else Binning(POOL[op[3]]["edges"], closed=POOL[op[3]]["closed"])
                        try:
                            BinnedTrees.build(hist[op[1]][op[2]], binning, force=op[4])
                            last_binned = f"patch{op[2]}-of-{op[1]}:{op[3]}"
                        except ValueError:
                            if not (noz and op[1] in ("unk", "ur") and binning is not None):
                                raise
                    elif kind == "build_none":
                        hist[op[1]].build_trees(None, force=op[2], max_workers=1)
                        if op[1] in ("ref", "rr"):
                            last_binned = "unbinned"
                    elif kind == "reopen":
                        handles[op[1]].append(Catalog(tmp / f"hist-{op[1]}", max_workers=1))
                os.environ["YAW_NUM_THREADS"] = "1"
                got = final_measure({k: v[0] for k, v in handles.items()}, case["final"])
            except Exception as e:
                import traceback

                tb = traceback.extract_tb(e.__traceback__)
                site = next((f.name for f in reversed(tb) if "/repo/src/yaw" in f.filename), "?")
                bad(f"history:raises-{type(e).__name__}:{site}", dict(error=str(e)[:300]))
                return out
        if got != want:
            n_diff = sum(1 for a, b in zip(got, want) if a != b)
            bad(f"history-dependent-result:{last_binned}->{case['final']}", dict(arrays_differing=n_diff, of=len(want)))
        out.append(result(HELD, cls=case["kind"], counters=dict(histories_run=1, final_measurements_compared=len(want),
                                                                 edge_valued_redshifts=n_edge),
                          nontrivial=len(case["ops"]) >= 1,
                          sample=dict(ops=case["ops"], final=case["final"])))
        return out


CHECK = C07()
