"""C10 — redshift-bin membership follows the closed-side rule everywhere.

Reference-model monitor: the three consumers of the binning (tree building,
the per-bin weight sums of a measurement, redshift histograms) are run on
edge-valued redshift lattices and compared with the explicit interval rule of
oracles/binrule.py and with each other."""

from __future__ import annotations

import warnings

import numpy as np

from oracles.binrule import bin_members
from vlib import cats, gen
from vlib.core import case_bits, HELD, VIOLATED, Check, Scratch, result


def lattice(rng, edges, n):
    """Redshifts containing every edge value exactly, one ulp either side,
    values below the first and above the last edge, and duplicates."""
    lo, hi = edges[0], edges[-1]
    span = hi - lo
    base = [edges, np.nextafter(edges, -np.inf), np.nextafter(edges, np.inf),
            (edges[:-1] + edges[1:]) / 2, [max(lo - 0.3 * span, 1e-9), hi + 0.3 * span]]
    vals = np.concatenate([np.asarray(b, dtype=float) for b in base])
    vals = vals[vals > 0]
    z = np.concatenate([vals, rng.choice(vals, max(0, n // 2 - len(vals))) if n // 2 > len(vals) else [],
                        rng.uniform(max(lo - 0.2 * span, 1e-9), hi + 0.2 * span, max(1, n - n // 2))])
    rng.shuffle(z)
    return z


def close_sum(got, want, scale, rel=1e-12):
    """Sums of weights of either sign cancel: the rounding of a sum lives on the scale of sum |w|, not of the sum."""
    got, want, scale = np.asarray(got, dtype=float), np.asarray(want, dtype=float), np.asarray(scale, dtype=float)
    if got.shape != want.shape:
        return False
    return bool(np.all(np.abs(got - want) <= rel * scale))


class C10(Check):
    id = "C10"
    level = "exploration"
    rule = (
        "seeded catalogs (1..4 patches, 20..150 objects, weighted or not) whose redshifts are drawn from a lattice "
        "containing every bin edge exactly, one ulp either side, values below zmin / above zmax and duplicates; edge "
        "arrays {linear, irregular, one bin, very narrow}; both closed sides; patches that are empty in some or all "
        "bins. Per bin and patch: BinnedTrees num_records/sum_weights, dd.sum_weights of a real crosscorrelate, and the "
        "per-patch histogram (data - samples[k]) of HistData.from_catalog are compared with the explicit interval rule "
        "and with each other. non-trivial = at least one object sits exactly on an inner and on an outer edge; "
        "distinct = case parameters + seed"
        ' Further classes: more than 256 bins, lowest edge exactly 0 with non-positive redshifts, a patch entirely on an outer edge, weights of either sign, binned reference randoms; the rule is applied to the redshifts as given.'
    )
    assumptions = ["membership of patch p is fixed by construction (points generated around centre p, nearest-centre assignment with margin)"]
    floor_nontrivial = 30
    required_counters = ("tree_cells", "measurement_cells", "hist_cells", "edge_valued_objects")
    shards = (12, 16)
    budget = (300, 400)

    def cases(self, tier, seed):
        n = 280 if tier == "quick" else 8000
        rng = np.random.default_rng([seed, 10])
        for i in range(n):
            yield dict(seed=seed * 100003 + i, closed=["left", "right"][i % 2], workers=2 if (i // 2) % 4 == 0 else 1,
                       edges=str(rng.choice(["linear", "irregular", "narrow", "one_bin", "many", "from_zero"], p=[0.20, 0.20, 0.20, 0.18, 0.06, 0.16])),
                       weighted=bool(rng.random() < 0.5),
                       empty=str(rng.choice(["none", "patch_outside", "bin_empty", "all_outside"], p=[0.5, 0.2, 0.2, 0.1]))
                       if i % 7 else ["patch_on_zmax", "patch_on_zmin"][(i // 14) % 2])

    def setup_worker(self):
        warnings.simplefilter("ignore")

    def execute(self, case):
        import yaw
        from yaw import Configuration, HistData
        from yaw.catalog.trees import BinnedTrees

        rng = np.random.default_rng([case["seed"], 10])
        out = []

        def bad(mech, detail):
            out.append(result(VIOLATED, mechanism=mech, detail=dict(case=case, **detail), nontrivial=False))

        nb = 1 if case["edges"] == "one_bin" else int(rng.integers(2, 7))
        if case["edges"] == "many":  # more bins than a one-byte bin index can hold
            nb = int(rng.integers(257, 330))
        edges = gen.gen_edges(rng, nb, "linear" if case["edges"] in ("one_bin", "many") else case["edges"])
        if case["edges"] == "from_zero":
            # the lowest edge is exactly 0 and the sample holds non-positive redshifts (noise below zero, -99 "no
            # redshift" flags): they lie outside [0, ..) / (0, ..] like any other value below zmin, 0.0 itself is on the edge
            nb = int(rng.integers(1, 6))
            edges = np.concatenate([[0.0], np.cumsum(rng.uniform(0.05, 0.6, nb))])
        else:
            edges = edges + 0.01  # keep redshifts positive
        closed = case["closed"]
        P = int(rng.integers(1, 5))
        r = np.deg2rad(0.4)
        centres = cats.layout_centres(rng, P, r * 2.5)
        n_each = rng.integers(5, 40, P)
        xyz, src = cats.points_around(rng, centres, n_each, r)
        ra, dec = gen.xyz_to_radec(xyz)
        n = len(ra)
        z = lattice(rng, edges, n)[:n]
        if len(z) < n:
            z = np.concatenate([z, rng.choice(z, n - len(z))])
        if case["edges"] == "from_zero":
            k = max(3, n // 4)
            z[rng.choice(n, k, replace=False)] = rng.choice([-99.0, -1e-3, -0.0, 0.0, -5e-324, 5e-324, -0.3], k)
        if case["empty"] == "patch_outside":
            z[src == 0] = edges[-1] + 0.5 + rng.uniform(0, 0.1, int((src == 0).sum()))
        elif case["empty"] == "bin_empty" and nb > 1:
            b = int(rng.integers(nb))
            inside = (z >= edges[b]) & (z <= edges[b + 1])
            z[inside] = edges[-1] + 1.0
        elif case["empty"] == "patch_on_zmax":  # every object of patch 0 at or above zmax, at least one exactly on it
            m0 = np.flatnonzero(src == 0)
            z[m0] = edges[-1] + rng.uniform(0.01, 0.1, len(m0))
            z[m0[: max(1, len(m0) // 4)]] = edges[-1]
        elif case["empty"] == "patch_on_zmin":
            m0 = np.flatnonzero(src == 0)
            z[m0] = edges[0] * rng.uniform(0.3, 0.9, len(m0))
            z[m0[: max(1, len(m0) // 4)]] = edges[0]
        elif case["empty"] == "all_outside":
            z = np.where(rng.random(n) < 0.5, edges[0] * 0.5, edges[-1] + 1.0)
        w = rng.uniform(0.25, 4.0, n) if case["weighted"] else None
        if w is not None and case_bits(case, "negative-weights") % 3 == 0:
            # weights of either sign (only finiteness is required): sparsely populated cells end up with negative sums
            w = w * rng.choice([-1.0, 1.0], n, p=[0.45, 0.55])

        cfg = Configuration.create(rmin=0.01, rmax=0.5, unit="deg", edges=edges.tolist(), closed=closed)
        counters = {}
        # a quarter of the cases runs the consumers on two worker processes (binning objects are pickled)
        nw = case.get("workers", 1)
        import os

        os.environ["YAW_NUM_THREADS"] = str(nw)
        with Scratch("c10") as tmp:
            cobj = cats.coords_obj(centres)
            ref = cats.create(tmp / "ref", cats.table(ra, dec, w=w, z=z), centers=cobj)
            # the rule is applied to the redshifts as given (not to what the cache holds): an object's bin is a
            # function of its input redshift; patch membership = nearest centre (margin by construction)
            pid_in, _margin = cats.nearest_centre(xyz, centres)
            rec = dict(z=np.asarray(z, dtype=float), w=w, pid=pid_in)
            ww = np.ones(len(rec["z"])) if rec["w"] is None else rec["w"]
            members = bin_members(rec["z"], edges, closed)
            want_w = np.array([[ww[m & (rec["pid"] == p)].sum() for p in range(P)] for m in members])  # (nb, P)
            want_n = np.array([[int((m & (rec["pid"] == p)).sum()) for p in range(P)] for m in members])
            abs_w = np.array([[np.abs(ww[m & (rec["pid"] == p)]).sum() for p in range(P)] for m in members])  # (nb, P) sum |w|
            on_inner = int(np.isin(rec["z"], edges[1:-1]).sum())
            on_outer = int(np.isin(rec["z"], edges[[0, -1]]).sum())
            counters["edge_valued_objects"] = on_inner + on_outer

            # consumer 1: trees
            got_tree_w = np.full((nb, P), np.nan)
            try:
                ref.build_trees(edges, closed=closed, max_workers=nw)
                got_tree_n = np.zeros((nb, P), dtype=int)
                for p in ref:
                    trees = BinnedTrees(ref[p]).trees
                    if len(trees) != nb:
                        bad("trees:wrong-number-of-bins", dict(got=len(trees), want=nb))
                        break
                    for b, t in enumerate(trees):
                        got_tree_n[b, p] = t.num_records
                        got_tree_w[b, p] = t.sum_weights
                        if t.tree is not None and t.tree.n != t.num_records:
                            bad("trees:num_records-inconsistent", {})
                counters["tree_cells"] = nb * P
                if not np.array_equal(got_tree_n, want_n):
                    bad(f"trees:num_records-wrong:{closed}", dict(got=got_tree_n.tolist(), want=want_n.tolist()))
                if not close_sum(got_tree_w, want_w, abs_w):
                    bad(f"trees:sum_weights-wrong:{closed}", dict(got=got_tree_w.tolist(), want=want_w.tolist()))
            except Exception as e:
                bad(f"trees:raises-{type(e).__name__}:{case['empty']}", dict(error=str(e)[:200]))

            # random reference sample with its own edge-valued redshifts (bins empty in some patches)
            rnd = want_r = None
            try:
                x, _ = cats.points_around(rng, centres, 8, r)
                x = np.concatenate([x, centres])
                a, d = gen.xyz_to_radec(x)
                zr = lattice(rng, edges, len(a))[: len(a)]
                if len(zr) < len(a):
                    zr = np.concatenate([zr, rng.choice(zr, len(a) - len(zr))])
                pid_r, _m = cats.nearest_centre(x, centres)
                if nb > 1:
                    zr[(pid_r == 0) & (zr >= edges[0]) & (zr <= edges[1])] = edges[-1] + 1.0  # first bin empty in patch 0
                rnd = cats.create(tmp / "rnd", cats.table(a, d, z=zr), centers=cobj)
                rrec = cats.records(rnd)
                rmem = bin_members(rrec["z"], edges, closed)
                want_r = np.array([[float((m & (rrec["pid"] == p)).sum()) for p in range(P)] for m in rmem])
            except Exception as e:
                bad(f"randoms:raises-{type(e).__name__}", dict(error=str(e)[:200]))

            # consumer 2: measurement (cross-correlation with both kinds of randoms: the reference randoms are binned too)
            got_meas = None
            try:
                def aux(name, npts):
                    x, _ = cats.points_around(rng, centres, npts, r)
                    x = np.concatenate([x, centres])
                    a, d = gen.xyz_to_radec(x)
                    return cats.create(tmp / name, cats.table(a, d), centers=cobj)

                unk, ur = aux("unk", 10), aux("ur", 12)
                cf = yaw.crosscorrelate(cfg, ref, unk, ref_rand=rnd, unk_rand=ur, max_workers=nw)[0]
                got_meas = cf.dd.sum_weights.sum_weights1
                counters["measurement_cells"] = nb * P
                if not close_sum(got_meas, want_w, abs_w):
                    bad(f"measurement:sum_weights-wrong:{closed}", dict(got=np.asarray(got_meas).tolist(), want=want_w.tolist()))
                if not np.array_equal(cf.dr.sum_weights.sum_weights1, got_meas):
                    bad("measurement:dd-dr-sum_weights-differ", {})
                if rnd is not None:
                    counters["measurement_cells"] += 2 * nb * P
                    for nm, got in (("rd", cf.rd.sum_weights.sum_weights1), ("rr", cf.rr.sum_weights.sum_weights1)):
                        if not (got.shape == want_r.shape and np.allclose(got, want_r, rtol=1e-12, atol=0)):
                            bad(f"measurement:cross:{nm}.sum_weights1-wrong:{closed}", dict(got=np.asarray(got).tolist(), want=want_r.tolist()))
                            break
            except Exception as e:
                bad(f"measurement:raises-{type(e).__name__}:{case['empty']}", dict(error=str(e)[:200]))

            # consumer 2b: autocorrelation (both trees binned; the random sample leaves bins empty in some patches)
            try:
                if rnd is None:
                    raise RuntimeError("no random catalog")
                acf = yaw.autocorrelate(cfg, ref, rnd, count_rr=True, max_workers=nw)[0]
                counters["measurement_cells"] = counters.get("measurement_cells", 0) + 3 * nb * P
                for nm, got, want in (("dd.sum_weights1", acf.dd.sum_weights.sum_weights1, want_w),
                                      ("dr.sum_weights1", acf.dr.sum_weights.sum_weights1, want_w),
                                      ("dr.sum_weights2", acf.dr.sum_weights.sum_weights2, want_r),
                                      ("rr.sum_weights1", acf.rr.sum_weights.sum_weights1, want_r)):
                    if not close_sum(got, want, np.abs(want) if want is want_r else abs_w):
                        bad(f"measurement:auto:{nm}-wrong:{closed}", dict(got=np.asarray(got).tolist(), want=want.tolist()))
                        break
            except Exception as e:
                bad(f"measurement:auto:raises-{type(e).__name__}:{case['empty']}", dict(error=str(e)[:200]))

            # consumer 3: histogram
            got_hist = None
            try:
                h = HistData.from_catalog(ref, cfg, max_workers=nw)
                counters["hist_cells"] = nb * P
                if not close_sum(h.data, want_w.sum(axis=1), abs_w.sum(axis=1)):
                    inner = bool(on_inner)
                    bad(f"hist:data-wrong:{closed}:{'inner-edge-valued' if inner else 'other'}",
                        dict(got=h.data.tolist(), want=want_w.sum(axis=1).tolist(), edges=edges.tolist()))
                got_hist = (h.data[None, :] - h.samples).T  # (nb, P) per-patch histograms
                if P > 1 and not close_sum(got_hist, want_w, abs_w.sum(axis=1)[:, None] + 1.0, rel=1e-9):
                    if close_sum(h.data, want_w.sum(axis=1), abs_w.sum(axis=1)):
                        bad("hist:per-patch-wrong", dict(got=got_hist.tolist(), want=want_w.tolist()))
            except Exception as e:
                bad(f"hist:raises-{type(e).__name__}:{case['empty']}", dict(error=str(e)[:200]))

            # the three consumers must agree with each other
            if got_meas is not None and not close_sum(got_meas, got_tree_w, abs_w):
                bad("consumers-disagree:trees-vs-measurement", {})
            if got_hist is not None and got_meas is not None and not close_sum(got_hist.sum(axis=1), np.asarray(got_meas).sum(axis=1), abs_w.sum(axis=1) + 1.0, rel=1e-9):
                bad(f"consumers-disagree:hist-vs-measurement:{closed}", dict(hist=got_hist.sum(axis=1).tolist(), meas=np.asarray(got_meas).sum(axis=1).tolist()))

        os.environ["YAW_NUM_THREADS"] = "1"
        out.append(result(HELD, cls=f"{case['edges']}/{closed}/{case['empty']}/w{nw}", counters=counters,
                          nontrivial=(on_inner > 0 or nb == 1) and on_outer > 0 or case["empty"] == "all_outside",
                          sample=dict(case=case, bins=nb, patches=P, n=n, on_inner_edge=on_inner, on_outer_edge=on_outer)))
        return out


CHECK = C10()
