"""C02 — catalog creation stores every input record exactly once, unchanged.

Reference-model monitor with unambiguous records (unique ids, DESIGN §3.3):
the stored records of every patch are matched against the input rows
(bijection, bit-identical attributes, coordinates to 2 ulp, expected patch by
brute-force nearest centre / named index), the reopened catalog is compared
bitwise, and per-patch multisets are compared across chunk size, buffer size,
worker count, delivery order (real pool with seeded delays) and progress."""

from __future__ import annotations

import hashlib
import os
import time
import warnings
from pathlib import Path

import numpy as np

from engines.procwatch import run_forked
from vlib import cats, gen, sources
from vlib.core import ERROR, HELD, VIOLATED, Check, Scratch, result, case_bits

SOURCES = ["dataframe", "hdf5", "fits", "parquet"]


def patch_digests(cat):
    """{patch id: (n, sha1 of the sorted record bytes)} through the public API."""
    out = {}
    for pid in cat:
        data = cat[pid].load_data()
        rows = np.sort(data, order=list(data.dtype.names))
        out[int(pid)] = [int(len(data)), hashlib.sha1(rows.tobytes()).hexdigest(), list(data.dtype.names)]
    return out


def stored_table(cat):
    rows = []
    for pid in cat:
        d = cat[pid].load_data()
        rows.append((pid, d))
    return rows


def ulp_close(a, b, nulp=2):
    a, b = np.asarray(a, dtype="f8"), np.asarray(b, dtype="f8")
    return np.abs(a - b) <= nulp * np.spacing(np.maximum(np.abs(a), np.abs(b)))


class C02(Check):
    id = "C02"
    level = "exploration"
    rule = (
        "seeded inputs with unique record ids from sources {DataFrame, HDF5, FITS (big-endian), Parquet with row groups "
        "smaller/equal/larger than the chunk and a single group, BoxRandoms} x column sets (weights/redshifts/patch ids in "
        "every combination) x dtypes {f8, f4, i8/i4 indices, unsigned 16/32-bit weight and index columns} x degrees/radian x lengths {1, 2, c-1, c, c+1, 2c-1, 2c, 2c+1, "
        "prime} for chunk sizes c in {1, 2, 3, 7, 100, n, > n} x patch modes {centres, index column, generated centres}, plus points placed 3e-9..1e-6 rad from a patch boundary; "
        "every creation is matched record by record against the input, reopened, and re-run under other (chunk size, "
        "buffer size via write_patches, workers 2/3/4/8 with seeded delays before each worker's queue put, progress) "
        "settings whose per-patch multisets must be identical. non-trivial = >= 2 chunks or >= 2 patches and all records "
        "matched; distinct = case parameters"
        ' Further classes: FITS tables in extension 2 behind another table, irregular Parquet row groups, right ascensions in other conventions, integer/half-float/unsigned columns, a zero-weight record, 70 001-row inputs, caches below patch-like directory names, non-default row labels, a source that pauses 17 s between two chunks.'
    )
    assumptions = [
        "objects whose two nearest centres differ by < 1e-9 rad may go to either patch",
        "delivery orders of the real pool are sampled (seeded delays), not enumerated; distinct observed orders are reported",
    ]
    floor_nontrivial = 30
    required_counters = ("records_matched", "reopen_compared", "variant_runs_compared", "parallel_runs", "distinct_delivery_orders")
    shards = (14, 16)
    budget = (300, 800)

    def cases(self, tier, seed):
        q = tier == "quick"
        rng = np.random.default_rng([seed, 2])
        n_cases = 110 if q else 3000
        lengths_for = lambda c: [1, 2, max(1, c - 1), c, c + 1, 2 * c - 1, 2 * c, 2 * c + 1, 97]  # noqa: E731
        # stratified stress of the parallel pipeline: several chunks with a tiny last chunk
        k = 0
        for source in SOURCES:
            for c, n in ((7, 22), (50, 151), (3, 10)) if q else ((7, 22), (50, 151), (3, 10), (20, 81), (100, 301)):
                for mode in ("centres", "index"):
                    k += 1
                    yield dict(seed=seed * 7919 + k, source=source, mode=mode, weights=True, redshifts=bool(k % 2),
                               dtype="f8", degrees=True, n=n, chunk=c, parallel=True, progress=False, group="smaller")
        for c, n in ((7, 50), (50, 333), (20, 97)):
            for mode in ("centres", "index"):
                k += 1
                yield dict(seed=seed * 7919 + 700 + k, source="parquet", mode=mode, weights=True, redshifts=bool(k % 2), dtype="f8",
                           degrees=True, n=n, chunk=c, parallel=bool(k % 2), progress=False, group="irregular", border=False)
        # whole-number columns (catalogues with coordinates in integer degrees, integer weights) and half floats
        for src_ in ("fits", "hdf5", "parquet", "dataframe"):
            for dt in ("ic", "f2"):
                if dt == "f2" and src_ in ("fits", "parquet"):
                    continue  # no half-float column type in these formats
                k += 1
                yield dict(seed=seed * 7919 + 800 + k, source=src_, mode=["centres", "index"][k % 2], weights=True, redshifts=bool(k % 2),
                           dtype=dt, degrees=True, n=90, chunk=40, parallel=False, progress=False, group="smaller", border=False)
        for src_ in ("fits", "hdf5", "parquet", "dataframe"):
            for dt in ("u2", "u4"):
                for mode in ("centres", "index"):
                    k += 1
                    yield dict(seed=seed * 7919 + 900 + k, source=src_, mode=mode, weights=True, redshifts=bool(k % 2), dtype=dt,
                               degrees=True, n=150, chunk=40, parallel=False, progress=False, group="smaller", border=False)
        for src_ in SOURCES:
            k += 1
            yield dict(seed=seed * 7919 + 950 + k, source=src_, mode="centres", weights=True, redshifts=False, dtype="f8",
                       degrees=bool(k % 2), n=300, chunk=64, parallel=bool(k % 2), progress=False, group="equal", border=True)
        # a slow source: 17 s pass between two chunks (a tape, a network file system, a busy generator); the writer
        # process must wait for the end-of-input signal, however long the input takes
        k += 1
        yield dict(seed=seed * 7919 + 980 + k, source="dataframe", mode="centres", weights=True, redshifts=True, dtype="f8", degrees=True,
                   n=170, chunk=40, parallel=True, progress=False, group="equal", border=False, slow_pause=17.0)
        # inputs longer than any power-of-two block size inside the pipeline (2^16), in few large chunks
        for src_ in (("dataframe", "hdf5") if q else SOURCES):
            k += 1
            yield dict(seed=seed * 7919 + 990 + k, source=src_, mode=["centres", "index"][k % 2], weights=True, redshifts=True,
                       dtype="f8", degrees=True, n=70001, chunk=32768, parallel=bool(k % 2) and not q, progress=False, group="larger", border=False)
        for i in range(n_cases):
            c = int(rng.choice([1, 2, 3, 7, 100]))
            n = int(rng.choice(lengths_for(c))) if rng.random() < 0.7 else int(rng.integers(1, 400))
            n = max(n, 1)
            chunk = c if rng.random() < 0.7 else int(rng.choice([n, n + 5, 10**6]))
            if c == 1 and n > 120:
                n = 120
            yield dict(
                seed=seed * 100003 + i, source=SOURCES[i % 4] if i % 9 != 8 else "random",
                mode=str(rng.choice(["centres", "index", "generate"], p=[0.55, 0.35, 0.10])),
                weights=bool(rng.random() < 0.6), redshifts=bool(rng.random() < 0.6),
                dtype=str(rng.choice(["f8", "f8", "f4", "u2", "u4"])), degrees=bool(rng.random() < 0.7),
                border=bool(rng.random() < 0.3),
                n=n, chunk=chunk, parallel=bool(i % 4 == 0), progress=bool(rng.random() < 0.2),
                group=str(rng.choice(["smaller", "equal", "larger", "one", "irregular"])),
            )

    def setup_worker_unused(self):
        pass

    def setup_worker(self):
        warnings.simplefilter("ignore")
        import yaw  # noqa: F401

        # the progress indicator writes to the stderr captured at import time: silence fd 2
        os.dup2(os.open(os.devnull, os.O_WRONLY), 2)

    # ------------------------------------------------------------------
    def execute(self, case):
        import pandas as pd

        from yaw import AngularCoordinates, Catalog
        from yaw.randoms import BoxRandoms

        rng = np.random.default_rng([case["seed"], 22])
        out = []
        counters = {}

        def bad(mech, detail):
            out.append(result(VIOLATED, mechanism=mech, detail=dict(case=case, **detail), nontrivial=False))

        n, chunk, mode, source = case["n"], case["chunk"], case["mode"], case["source"]
        P = int(rng.integers(1, 6))
        centres = cats.layout_centres(rng, P, np.deg2rad(2.0), str(rng.choice(["random", "pole", "wrap"])))
        if mode == "generate":
            n = max(n, 60)
            P = min(P, 3)
            centres = centres[:P]
        if source == "random":
            mode = "centres"
            n = max(n, 80)
        pid_true = None
        cols = sources.make_table(rng, n, weights=case["weights"], redshifts=case["redshifts"], degrees=case["degrees"],
                                  dtype="f8" if case["dtype"] in ("ic", "f2") else case["dtype"], centres_xyz=centres, spread=np.deg2rad(1.5))
        if case["dtype"] == "ic":
            # coordinates in whole degrees as 32/16-bit integers, whole-number weights as 64-bit integers
            cols["ra"] = (np.round(cols["ra"]).astype("i4") % 360).astype("i4")
            cols["dec"] = np.clip(np.round(cols["dec"]), -90, 90).astype("i2")
            if "w" in cols:
                cols["w"] = (np.arange(n) + 1).astype("i8")
        elif case["dtype"] == "f2":
            cols["ra"], cols["dec"] = cols["ra"].astype("f2"), cols["dec"].astype("f2")
        if case.get("border") and len(centres) >= 2 and mode != "generate":
            # hostile class: a third of the points sit 3e-9 .. 1e-6 rad from the bisector of two centres
            c1, c2 = centres[0], centres[1]
            nrm = (c1 - c2) / np.linalg.norm(c1 - c2)
            mid = (c1 + c2) / np.linalg.norm(c1 + c2)
            axis = np.cross(nrm, mid)
            axis /= np.linalg.norm(axis)
            m = max(1, n // 3)
            t = rng.uniform(-0.01, 0.01, m)
            on = np.cos(t)[:, None] * mid + np.sin(t)[:, None] * axis  # on the bisecting great circle
            delta = 10.0 ** rng.uniform(-8.5, -6, m) * rng.choice([-1.0, 1.0], m)
            pts = on + delta[:, None] * nrm
            pts /= np.linalg.norm(pts, axis=1)[:, None]
            bra, bdec = gen.xyz_to_radec(pts)
            cols["ra"][:m] = (np.rad2deg(bra) if case["degrees"] else bra).astype(cols["ra"].dtype)
            cols["dec"][:m] = (np.rad2deg(bdec) if case["degrees"] else bdec).astype(cols["dec"].dtype)
        conv = case_bits(case, "ra-convention") % 3
        if conv and source != "random":
            # the same sky in the (-180, 180] convention (conv 1) or with some right ascensions given one turn
            # higher (conv 2): coordinates are stored as given, whatever the convention
            turn = 360.0 if case["degrees"] else 2 * np.pi
            ra = cols["ra"].astype("f8")
            if conv == 1:
                ra = np.where(ra > turn / 2, ra - turn, ra)
            else:
                ra[:: 5] += turn
                ra[0] = turn
            cols["ra"] = ra.astype(cols["ra"].dtype)
        ra_rad = np.deg2rad(cols["ra"].astype("f8")) if case["degrees"] else cols["ra"].astype("f8")
        dec_rad = np.deg2rad(cols["dec"].astype("f8")) if case["degrees"] else cols["dec"].astype("f8")
        xyz = gen.radec_to_xyz(ra_rad, dec_rad)
        nearest, margin = cats.nearest_centre(xyz, centres)
        if case["weights"] and mode != "generate" and source != "random" and cols["w"].dtype.kind == "f":
            # a masked object (weight exactly zero, still a unique id) is a record like any other; it sits in a
            # patch with further objects (a patch of zero total weight has no mean direction)
            sizes = np.bincount(nearest, minlength=len(centres))
            if sizes.max() >= 3:
                cols["w"][np.flatnonzero(nearest == int(np.argmax(sizes)))[0]] = 0.0
        if mode == "index":
            pid_true = nearest.copy()
            # make sure the indices are contiguous from 0
            used = np.unique(pid_true)
            remap = {int(u): k for k, u in enumerate(used)}
            pid_true = np.array([remap[int(p)] for p in pid_true])
            cols["patch"] = pid_true.astype("i8" if case["dtype"] == "f8" else "i4")
        elif mode == "centres":
            # every centre must attract an object (empty patches are refused): keep attracted centres only
            used = np.unique(nearest)
            centres = centres[used]
            P = len(centres)
            nearest, margin = cats.nearest_centre(xyz, centres)

        names = dict(ra_name="ra", dec_name="dec")
        if case["weights"]:
            names["weight_name"] = "w"
        if case["redshifts"]:
            names["redshift_name"] = "z"
        patch_kw = {}
        if mode == "centres":
            patch_kw["patch_centers"] = "CENTRES"
            if source != "random" and rng.random() < 0.3:
                # a patch-index column is present too: the centres take precedence, the column is ignored
                cols["patch"] = rng.integers(0, 7, n).astype("i8")
                patch_kw["patch_name"] = "patch"
        elif mode == "index":
            patch_kw["patch_name"] = "patch"
        else:
            patch_kw["patch_num"] = P
            patch_kw["probe_size"] = n

        reader_kw = {}
        with Scratch("c02") as tmp:
            if case_bits(case, "patch-like-parent") % 4 == 0:
                tmp = tmp / ["patch_3", "run_patch_12"][case_bits(case, "parent-name") % 2] / "cache"
                tmp.mkdir(parents=True)
            src_path = None
            if source in ("hdf5", "fits", "parquet"):
                rgs = {"smaller": max(1, chunk // 3), "equal": chunk, "larger": chunk * 2 + 1, "one": n, "irregular": chunk}[case["group"]]
                # FITS: every third case keeps the table in extension 2 behind another table of a different length
                decoy = None
                if source == "fits" and case_bits(case, "hdu") % 3 == 0:
                    decoy = [max(1, n // 3), n + 7, 2 * n + 1][case_bits(case, "decoy") % 3]
                    reader_kw["hdu"] = 2
                src_path = sources.write_source(source, tmp / ("input" + sources.EXT[source]), cols,
                                                row_group_size=([2 * chunk + 3, max(1, chunk // 2), 1, chunk] if case["group"] == "irregular" and source == "parquet"
                                                                else min(max(rgs, 1), max(n, 1))), decoy_rows=decoy)
            box = None
            if source == "random":
                box = dict(ra_min=10.0, ra_max=20.0, dec_min=-10.0, dec_max=10.0,
                           weights=cols.get("w"), redshifts=cols.get("z"), seed=int(case["seed"] % 1000))
                centres = cats.layout_centres(np.random.default_rng(5), 3, np.deg2rad(3.0), "equator")
                c_ra, c_dec = gen.xyz_to_radec(centres)
                centres = gen.radec_to_xyz(np.deg2rad(np.array([12.0, 15.0, 18.0])), np.deg2rad(np.array([0.0, 3.0, -3.0])))
                _ = (c_ra, c_dec)

            def create(target, *, workers, chunksize, progress=False, buffersize=None, delay_seed=None, order_log=None, slow=None):
                """Runs in this process (workers == 1) or in a forked child."""
                import yaw.catalog.catalog as ycat

                os.environ["YAW_NUM_THREADS"] = str(workers)
                kw = dict(names, degrees=case["degrees"], chunksize=chunksize, max_workers=workers, progress=progress)
                kw.update(patch_kw)
                if kw.get("patch_centers") == "CENTRES":
                    kw["patch_centers"] = cats.coords_obj(centres)
                if delay_seed is not None:
                    orig_call = ycat.ChunkProcessingTask.__call__
                    orig_pp = ycat.CatalogWriter.process_patches

                    last_start = ((n - 1) // chunksize) * chunksize  # first row id of the last chunk

                    def delayed_call(self_, chunk_):
                        if delay_seed % 2 == 0 and "weights" in chunk_.dtype.names and len(chunk_):
                            # adversary for end-of-stream protocols: every task is slow except those of
                            # the last chunk, so the last chunk completes while earlier parts still run
                            time.sleep(0.0 if chunk_["weights"].min() >= last_start + 0.5 else 0.03)
                        else:
                            h = int(hashlib.sha1(chunk_.tobytes()[:64] + str(delay_seed).encode()).hexdigest()[:6], 16)
                            time.sleep((h % 7) * 0.002)
                        return orig_call(self_, chunk_)

                    def logging_pp(self_, patches):
                        firsts = sorted(float(p[p.dtype.names[2] if len(p.dtype.names) > 2 else "ra"][0])
                                        for p in patches.values() if len(p))
                        with open(order_log, "a") as f:
                            f.write(f"{firsts[0] if firsts else None!r}\n")
                        return orig_pp(self_, patches)

                    ycat.ChunkProcessingTask.__call__ = delayed_call
                    ycat.CatalogWriter.process_patches = logging_pp
                if progress:
                    import io
                    import sys

                    sys.stderr = io.StringIO()
                if buffersize is not None and source != "random":
                    from yaw.catalog import readers

                    rk = dict(names, patch_name=kw.get("patch_name"), chunksize=chunksize, degrees=case["degrees"])
                    reader = (readers.DataFrameReader(pd.DataFrame(cols), **rk) if source == "dataframe"
                              else readers.new_filereader(src_path, **rk, **reader_kw))
                    ycat.write_patches(target, reader, kw.get("patch_centers"), overwrite=False, progress=False,
                                       max_workers=workers, buffersize=buffersize)
                    cat = Catalog(target, max_workers=1)
                elif source == "dataframe":
                    frame = pd.DataFrame(cols)
                    if case_bits(case, "row-labels") % 3 == 0:  # row labels of a larger parent table
                        frame.index = np.arange(len(frame))[::-1] * 2 + 500
                    if slow:
                        class SlowFrame:
                            """Serves row slices like the frame; the slice starting at or after row 2*chunk takes a while."""

                            def __init__(self_, df):
                                self_._df, self_._paused = df, False

                            def __len__(self_):
                                return len(self_._df)

                            def __getitem__(self_, key):
                                if isinstance(key, slice) and (key.start or 0) >= 2 * chunksize and not self_._paused:
                                    self_._paused = True
                                    time.sleep(slow)
                                return self_._df[key]

                            def __getattr__(self_, name):
                                return getattr(self_._df, name)

                        frame = SlowFrame(frame)
                    cat = Catalog.from_dataframe(target, frame, **kw)
                elif source == "random":
                    for k in ("ra_name", "dec_name", "weight_name", "redshift_name", "patch_name", "degrees"):
                        kw.pop(k, None)
                    cat = Catalog.from_random(target, BoxRandoms(**box), n, **kw)
                else:
                    cat = Catalog.from_file(target, src_path, **kw, **reader_kw)
                os.environ["YAW_NUM_THREADS"] = "1"
                return dict(digests={str(k): v for k, v in patch_digests(cat).items()},
                            centers=cat.get_centers().data.tolist())

            # ---- baseline: sequential with the case's chunk size ------------------------------
            try:
                base = create(tmp / "base", workers=1, chunksize=chunk, progress=case["progress"])
            except Exception as e:
                import traceback

                tb = traceback.extract_tb(e.__traceback__)
                site = next((f.name for f in reversed(tb) if "/repo/src/yaw" in f.filename), "?")
                bad(f"creation:raises-{type(e).__name__}:{site}:{source}", dict(error=str(e)[:300]))
                return out
            cat = Catalog(tmp / "base", max_workers=1)
            counters["reopen_compared"] = 1
            if {str(k): v for k, v in patch_digests(cat).items()} != base["digests"]:
                bad("reopen:records-differ", {})

            # ---- record-by-record oracle ----------------------------------------------------------
            if source != "random":
                stored = stored_table(cat)
                tot = sum(len(d) for _, d in stored)
                if tot != n:
                    bad(f"records:count-wrong:{source}", dict(stored=tot, input=n, chunk=chunk))
                else:
                    allrows = np.concatenate([d for _, d in stored])
                    allpid = np.concatenate([np.full(len(d), p) for p, d in stored])
                    if case["weights"]:
                        key_s, key_in = allrows["weights"], cols["w"].astype("f8")
                    elif case["redshifts"]:
                        key_s, key_in = allrows["redshifts"], cols["z"].astype("f8")
                    else:
                        key_s, key_in = allrows["ra"] + 1j * allrows["dec"], None
                    if key_in is not None:
                        o_s, o_in = np.argsort(key_s, kind="stable"), np.argsort(key_in, kind="stable")
                        if not np.array_equal(key_s[o_s], key_in[o_in]):
                            missing = np.setdiff1d(key_in, key_s)
                            dup = len(key_s) - len(np.unique(key_s))
                            bad(f"records:not-a-bijection:{source}", dict(missing=missing[:5].tolist(), duplicates=int(dup), chunk=chunk, n=n))
                            o_s = None
                    else:
                        # match by coordinates (unique by construction): nearest in (ra, dec)
                        o_in = np.lexsort((dec_rad, ra_rad))
                        o_s = np.lexsort((allrows["dec"], allrows["ra"]))
                    if o_s is not None:
                        srow, spid = allrows[o_s], allpid[o_s]
                        counters["records_matched"] = int(len(srow))
                        if not (np.all(ulp_close(srow["ra"], ra_rad[o_in])) and np.all(ulp_close(srow["dec"], dec_rad[o_in]))):
                            j = int(np.flatnonzero(~(ulp_close(srow["ra"], ra_rad[o_in]) & ulp_close(srow["dec"], dec_rad[o_in])))[0])
                            bad(f"records:coordinates-changed:{'degrees' if case['degrees'] else 'radian'}",
                                dict(stored=[float(srow['ra'][j]), float(srow['dec'][j])], want=[float(ra_rad[o_in][j]), float(dec_rad[o_in][j])]))
                        if case["weights"] and not np.array_equal(srow["weights"], cols["w"].astype("f8")[o_in]):
                            bad("records:weights-changed", {})
                        if case["redshifts"] and not np.array_equal(srow["redshifts"], cols["z"].astype("f8")[o_in]):
                            bad("records:redshifts-changed", {})
                        if ("weights" in allrows.dtype.names) != case["weights"] or ("redshifts" in allrows.dtype.names) != case["redshifts"]:
                            bad("records:columns-differ", dict(stored=list(allrows.dtype.names)))
                        # expected patch
                        if mode == "centres":
                            want_pid = nearest[o_in]
                            wrong = (spid != want_pid) & (margin[o_in] > 1e-9)
                            if wrong.any():
                                bad("records:wrong-patch:nearest-centre", dict(n_wrong=int(wrong.sum())))
                        elif mode == "index":
                            if not np.array_equal(spid, pid_true[o_in]):
                                bad("records:wrong-patch:index-column", dict(n_wrong=int((spid != pid_true[o_in]).sum())))
                        else:
                            cen = np.asarray(base["centers"])
                            cx = gen.radec_to_xyz(cen[:, 0], cen[:, 1])
                            nn, mm = cats.nearest_centre(gen.radec_to_xyz(srow["ra"], srow["dec"]), cx)
                            wrong = (spid != nn) & (mm > 1e-9)
                            if wrong.any():
                                bad("records:wrong-patch:generated-centres", dict(n_wrong=int(wrong.sum())))

            # ---- variants: same input, other settings ------------------------------------------------
            if mode != "generate":  # generated centres are not reproducible between runs by documentation
                variants = []
                other_chunks = [c for c in {1 if n <= 150 else 13, 2, 7, n, n + 3, 10**6} if c != chunk]
                if n > 5000:  # large inputs: a handful of chunks, not tens of thousands
                    other_chunks = [c for c in {n // 3 + 1, 16384, 2**16, n, n + 3, 10**6} if c != chunk]
                if source != "random":
                    variants.append(dict(workers=1, chunksize=int(rng.choice(other_chunks))))
                    variants.append(dict(workers=1, chunksize=chunk, buffersize=int(rng.choice([-1, 1, 5, 65536]))))
                    variants.append(dict(workers=1, chunksize=chunk, progress=not case["progress"]))
                if case["parallel"]:
                    for w in ([2, 4] if source == "random" else [int(rng.choice([2, 3])), int(rng.choice([4, 8]))]):
                        variants.append(dict(workers=w, chunksize=chunk if source == "random" else int(rng.choice([chunk] + other_chunks)),
                                             delay_seed=int(rng.integers(1 << 30))))
                if case.get("slow_pause"):
                    variants = [dict(workers=2 + case["seed"] % 2, chunksize=chunk, slow=float(case["slow_pause"]))]
                orders = set()
                for vi, v in enumerate(variants):
                    target = tmp / f"var{vi}"
                    if v["workers"] > 1:
                        v["order_log"] = str(tmp / f"order{vi}.log")
                        # (the watchdog tolerates the silence of a deliberately slow source)
                        res = run_forked(lambda v=v, target=target: create(target, **v), workdir=tmp, wall_cap=180,
                                         quiet_samples=int(2 * (v.get("slow") or 0) + 16) if v.get("slow") else 16)
                        counters["parallel_runs"] = counters.get("parallel_runs", 0) + 1
                        if res["outcome"] == "quiescent":
                            bad("parallel-creation:hang", dict(variant={k: x for k, x in v.items() if k != "order_log"}, stack=res.get("stack", "")[-600:]))
                            continue
                        if res["outcome"] == "raised":
                            bad(f"parallel-creation:raises-{res['type']}", dict(variant={k: x for k, x in v.items() if k != "order_log"}, error=res["message"]))
                            continue
                        if res["outcome"] != "returned":
                            out.append(result(ERROR, detail=f"forked creation: {res}", nontrivial=False))
                            continue
                        got = res["value"]
                        if Path(v["order_log"]).exists():
                            seq = tuple(Path(v["order_log"]).read_text().split())
                            orders.add(seq)
                            vals = [float(x) for x in seq if x != "None"]
                            if vals != sorted(vals):
                                counters["arrivals_out_of_submission_order"] = counters.get("arrivals_out_of_submission_order", 0) + 1
                    else:
                        try:
                            got = create(target, **v)
                        except Exception as e:
                            bad(f"variant-creation:raises-{type(e).__name__}", dict(variant=v, error=str(e)[:200]))
                            continue
                    counters["variant_runs_compared"] = counters.get("variant_runs_compared", 0) + 1
                    if got["digests"] != base["digests"]:
                        what = [k for k in ("workers", "chunksize", "buffersize", "progress") if k in v]
                        sizes_equal = {k: x[0] for k, x in got["digests"].items()} == {k: x[0] for k, x in base["digests"].items()}
                        tag = "parallel" if v["workers"] > 1 else ("buffersize" if "buffersize" in v else ("progress" if "progress" in v else "chunksize"))
                        bad(f"variants:per-patch-records-differ:{tag}", dict(variant={k: v[k] for k in what}, base_chunk=chunk,
                                                                            same_patch_sizes=sizes_equal, n=n,
                                                                            got_sizes={k: x[0] for k, x in got["digests"].items()},
                                                                            want_sizes={k: x[0] for k, x in base["digests"].items()}))
                counters["distinct_delivery_orders"] = len(orders)
            nchunks = -(-n // chunk)
        out.append(result(HELD, cls=f"{source}/{mode}", counters=counters,
                          nontrivial=(nchunks >= 2 or P >= 2) and (counters.get("records_matched", 0) > 0 or source == "random"),
                          sample=dict(case=case, patches=P, chunks=nchunks)))
        return out


CHECK = C02()
