"""C17 — pair-count and data containers obey their documented algebra and
indexing.  Algebraic-law monitor over generated containers plus the icontract
structural invariants of engines/contracts.py."""

from __future__ import annotations

import copy

import numpy as np

from engines import contracts
from vlib import gen
from vlib.core import HELD, VIOLATED, Check, result

SCALARS = [0, 1, -2, 0.5, 1e6, np.float64(3.5), np.int64(3), np.float32(0.25)]


class Laws:
    """Collects law evaluations for one case."""

    def __init__(self):
        self.n = 0
        self.bad = {}

    def check(self, name, func):
        """func() returns None/True when the law holds, otherwise a detail."""
        self.n += 1
        try:
            r = func()
        except contracts.InvariantBroken as e:
            self.bad.setdefault(f"invariant:{e}", f"{name}")
            return
        except Exception as e:  # the law must hold, so an exception is a failure
            self.bad.setdefault(f"{name}:{type(e).__name__}", f"{type(e).__name__}: {e}")
            return
        if r is None or r is True:
            return
        self.bad.setdefault(f"{name}:mismatch", r)

    def raises(self, name, func, allowed=(TypeError, ValueError, IndexError)):
        """func() must raise one of ``allowed``."""
        self.n += 1
        try:
            func()
        except allowed:
            return
        except contracts.InvariantBroken as e:
            self.bad.setdefault(f"invariant:{e}", name)
            return
        except Exception as e:
            self.bad.setdefault(f"{name}:raises-{type(e).__name__}", f"{type(e).__name__}: {e}")
            return
        self.bad.setdefault(f"{name}:accepted", "no error raised")


def snapshot(obj):
    """Bytes of every array a container holds (recursively), to detect operations that modify an operand."""
    if obj is None:
        return b"-"
    if isinstance(obj, np.ndarray):
        return obj.tobytes() + repr(obj.shape).encode()
    if hasattr(obj, "to_dict") and not hasattr(obj, "counts") and not hasattr(obj, "samples") and not hasattr(obj, "sum_weights1"):
        return b"|".join(k.encode() + snapshot(v) for k, v in sorted(obj.to_dict().items()))  # CorrFunc
    parts = [snapshot(obj.binning.edges)] if hasattr(obj, "binning") else []
    for name in ("counts", "sum_weights", "sum_weights1", "sum_weights2", "data", "samples", "edges"):
        if hasattr(obj, name):
            parts.append(name.encode() + snapshot(getattr(obj, name)))
    return b"|".join(parts)


def laws_inplace(L, tag, items, plus, minus=None, from_zero=True):
    """Augmented assignment follows the binary operators and never modifies an operand."""
    a, b = items[0], items[1]
    before = [snapshot(x) for x in items]

    def iadd():
        x = a
        x += b
        if snapshot(x) != snapshot(plus(a, b)) and snapshot(a) == before[0]:
            return "x = a; x += b differs from a + b"
        if snapshot(a) != before[0] or snapshot(b) != before[1]:
            return "x = a; x += b modified an operand"
    L.check(f"{tag}.iadd", iadd)

    def accumulate():
        totals = []
        for _ in range(2):
            total = 0 if from_zero else items[0]
            for it in items[0 if from_zero else 1:]:
                total += it
            totals.append(snapshot(total))
        if [snapshot(x) for x in items] != before:
            return "accumulating with += modified an operand"
        if totals[0] != totals[1]:
            return "accumulating the same containers twice gives different totals"
        want = items[0]
        for it in items[1:]:
            want = plus(want, it)
        if totals[0] != snapshot(want):
            return "accumulating with += differs from repeated +"
    if minus is None:
        L.check(f"{tag}.accumulate", accumulate)
    else:
        def isub():
            x = a
            x -= b
            if snapshot(a) != before[0] or snapshot(b) != before[1]:
                return "x = a; x -= b modified an operand"
            if snapshot(x) != snapshot(minus(a, b)):
                return "x = a; x -= b differs from a - b"
        L.check(f"{tag}.isub", isub)


def eq_arr(a, b):
    return a.shape == b.shape and np.array_equal(a, b, equal_nan=True)


def index_sets(n, rng):
    """single indices (incl. negative) and slices for an axis of length n."""
    ints = list(range(n)) + [-1, -n]
    slices = [slice(i, j) for i in range(n) for j in range(i + 1, n + 1)]
    slices += [slice(None), slice(None, None, 1)]
    if n >= 2:
        slices += [slice(-2, None), slice(None, -1)]
    if len(slices) > 14:
        keep = rng.choice(len(slices), 14, replace=False)
        slices = [slices[i] for i in sorted(keep)]
    return ints, slices


def as_slice(i, n):
    i = i % n
    return slice(i, i + 1)


# ---------------------------------------------------------------------------
def laws_binwise_patchwise(L, tag, x, get_arr, rng, rebuild):
    """Indexing laws common to PatchedCounts/PatchedSumWeights/NormalisedCounts.
    get_arr(obj) -> the (bins,P,P) array to compare; rebuild unused."""
    nb, npatch = x.num_bins, x.num_patches
    full = get_arr(x)
    ints, slices = index_sets(nb, rng)
    for i in ints:
        L.check(f"{tag}.bins[int]", lambda i=i: None if (
            eq_arr(get_arr(x.bins[i]), full[as_slice(i, nb)])
            and np.array_equal(x.bins[i].binning.edges, x.binning.edges[as_slice(i, nb).start: as_slice(i, nb).stop + 1])
        ) else f"bins[{i}] differs from sub-array")
    for i in ints[:3] + [-1]:
        # an index computed with numpy (argmax, arange, ...) selects the same bin as the builtin int
        L.check(f"{tag}.bins[numpy-int]", lambda i=i: None if (
            eq_arr(get_arr(x.bins[np.int64(i)]), get_arr(x.bins[int(i)])) and eq_arr(get_arr(x.bins[np.intp(i)]), full[as_slice(i, nb)])
            and x.bins[np.int32(i)].binning == x.bins[int(i)].binning) else f"bins[np.int64({i})] differs from bins[{i}]")
    for i in index_sets(npatch, rng)[0][:3]:
        L.check(f"{tag}.patches[numpy-int]", lambda i=i: None if eq_arr(get_arr(x.patches[np.int64(i)]), get_arr(x.patches[int(i)]))
                else f"patches[np.int64({i})] differs from patches[{i}]")
    for s in slices:
        def f(s=s):
            sub = x.bins[s]
            if not eq_arr(get_arr(sub), full[s]):
                return f"bins[{s}] differs from sub-array"
            lo, hi, _ = s.indices(nb)
            if not np.array_equal(sub.binning.edges, x.binning.edges[lo:hi + 1]):
                return f"bins[{s}] binning edges wrong"
            if sub.binning.closed != x.binning.closed:
                return "closed side lost"
        L.check(f"{tag}.bins[slice]", f)
    if nb >= 3:
        for st in (slice(None, None, 2), slice(1, None, 2), slice(None, None, 3)):
            def stepped(st=st):
                sub = x.bins[st]
                if not eq_arr(get_arr(sub), full[st]):
                    return f"bins[{st}] differs from sub-array"
                # documented: the previous bin expands to encompass the omitted ones
                want = np.append(x.binning.left[st], x.binning.right[st][-1])
                if not np.array_equal(sub.binning.edges, want):
                    return f"bins[{st}] edges {sub.binning.edges.tolist()} != {want.tolist()}"
            L.check(f"{tag}.bins[step]", stepped)
    if nb >= 2:
        # a selection that would not give increasing bins is rejected, never returned
        L.raises(f"{tag}.bins[reversed]", lambda: x.bins[::-1])
    L.check(f"{tag}.bins.iter", lambda: None if (
        len(lst := list(x.bins)) == nb and all(eq_arr(get_arr(b), full[i:i + 1]) for i, b in enumerate(lst))
    ) else "iteration over bins differs")
    L.raises(f"{tag}.bins[out-of-range]", lambda: x.bins[nb])

    def reiterate(sel, n):
        first = len(list(sel))
        second = len(list(sel))  # the same selector object again
        it = iter(sel)
        next(it, None)  # abandon an iteration early, then start over
        third = len(list(sel))
        return None if (first, second, third) == (n, n, n) else f"lengths of repeated iterations {(first, second, third)} != {n}"

    L.check(f"{tag}.bins.iter-twice", lambda: reiterate(x.bins, nb))
    L.check(f"{tag}.patches.iter-twice", lambda: reiterate(x.patches, npatch))

    ints, slices = index_sets(npatch, rng)
    for i in ints:
        sl = as_slice(i, npatch)
        L.check(f"{tag}.patches[int]", lambda i=i, sl=sl: None if eq_arr(get_arr(x.patches[i]), _block(x, full, sl))
                else f"patches[{i}] differs from sub-array")
    for s in slices:
        L.check(f"{tag}.patches[slice]", lambda s=s: None if eq_arr(get_arr(x.patches[s]), _block(x, full, s))
                else f"patches[{s}] differs from sub-array")
    if npatch >= 2:
        for _ in range(3):
            sel = rng.permutation(npatch)[: int(rng.integers(2, npatch + 1))].tolist()  # any order, not only ascending
            if tag == "PatchedSumWeights":
                # its array form is built from the two weight vectors (upper triangle for auto): compare the vectors
                L.check(f"{tag}.patches[list]", lambda sel=sel: None if eq_arr(x.patches[sel].sum_weights1, x.sum_weights1[:, sel])
                        and eq_arr(x.patches[sel].sum_weights2, x.sum_weights2[:, sel]) else f"patches[{sel}]: weights are not the sub-arrays in that order")
            else:
                L.check(f"{tag}.patches[list]", lambda sel=sel: None if eq_arr(get_arr(x.patches[sel]), full[:, sel][:, :, sel])
                        else f"patches[{sel}] differs from the sub-array taken in that order")
    L.check(f"{tag}.patches.iter", lambda: None if (
        len(lst := list(x.patches)) == npatch
        and all(eq_arr(get_arr(p), _block(x, full, slice(i, i + 1))) for i, p in enumerate(lst))
    ) else "iteration over patches differs")
    L.raises(f"{tag}.patches[out-of-range]", lambda: x.patches[npatch])


def _block(x, full, s):
    return full[:, s, s]


def laws_counts(L, rng, nb, npatch, auto):
    from yaw.correlation.paircounts import PatchedCounts, PatchedSumWeights, NormalisedCounts

    binning = gen.gen_binning(rng, nb)
    mk = lambda: PatchedCounts(binning, gen.gen_count_array(rng, nb, npatch, auto), auto=auto)  # noqa: E731
    a, b, c = mk(), mk(), mk()
    tag = "PatchedCounts"
    L.check(f"{tag}.add", lambda: None if eq_arr((a + b).counts, a.counts + b.counts) and (a + b).auto == auto
            and (a + b).binning == binning else "a+b != sum of counts")
    L.check(f"{tag}.sum", lambda: None if eq_arr(sum([a, b, c]).counts, a.counts + b.counts + c.counts) else "sum() differs")
    L.check(f"{tag}.radd0", lambda: None if (0 + a) == a else "0 + a != a")
    other_bin = PatchedCounts(gen.gen_binning(rng, nb), a.counts, auto=auto)
    L.raises(f"{tag}.add-other-binning", lambda: a + other_bin)
    flipped = type(binning)(binning.edges, closed="left" if binning.closed == "right" else "right")
    L.raises(f"{tag}.add-other-closed", lambda: a + PatchedCounts(flipped, a.counts, auto=auto))
    bigger = PatchedCounts(binning, gen.gen_count_array(rng, nb, npatch + 1, auto), auto=auto)
    L.raises(f"{tag}.add-other-patches", lambda: a + bigger)
    L.raises(f"{tag}.add-other-type", lambda: a + a.counts)
    L.check(f"{tag}.is_compatible", lambda: None if a.is_compatible(b) is True and a.is_compatible(other_bin) is False
            and a.is_compatible(bigger) is False and a.is_compatible(a.counts) is False
            and a.is_compatible(PatchedCounts(flipped, a.counts, auto=auto)) is False else "is_compatible() wrong")
    L.raises(f"{tag}.add-scalar", lambda: a + 1.0)
    for s in SCALARS:
        L.check(f"{tag}.mul", lambda s=s: None if eq_arr((a * s).counts, a.counts * s) and (a * s).auto == auto else f"a*{s!r} differs")
    # any number numpy calls a scalar is a scalar here too (round 7: results forced into a float64 buffer)
    import fractions
    L.check(f"{tag}.mul-fraction", lambda: None if np.array_equal(np.asarray((a * fractions.Fraction(1, 2)).counts, dtype=float), a.counts * 0.5)
            and np.array_equal(np.asarray((a * fractions.Fraction(-3, 1)).counts, dtype=float), a.counts * -3.0) else "a*Fraction differs")
    L.raises(f"{tag}.mul-bool", lambda: a * True)
    L.check(f"{tag}.eq-reflexive", lambda: None if a == a and a == copy.deepcopy(a) else "a != a")
    pert = copy.deepcopy(a)
    pert.counts[tuple(rng.integers(0, s) for s in pert.counts.shape)] += 1.0
    L.check(f"{tag}.neq-perturbed", lambda: None if a != pert and not (a == pert) else "perturbed compares equal")
    L.check(f"{tag}.neq-auto", lambda: None if a != PatchedCounts(binning, a.counts, auto=not auto) else "auto ignored by ==")

    def constant_shapes():
        for val in (0.0, 2.0):
            one = PatchedCounts(binning, np.full((nb, 1, 1), val), auto=auto)
            many = PatchedCounts(binning, np.full((nb, npatch + 1, npatch + 1), val), auto=auto)
            if one == many or many == one or one.is_compatible(many):
                return f"constant containers ({val}) with 1 and {npatch + 1} patches compare equal / compatible"
            w1_ = PatchedSumWeights(binning, np.full((nb, 1), val), np.full((nb, 1), val), auto=auto)
            wn_ = PatchedSumWeights(binning, np.full((nb, npatch + 1), val), np.full((nb, npatch + 1), val), auto=auto)
            if w1_ == wn_ or wn_ == w1_:
                return f"constant sums of weights ({val}) with 1 and {npatch + 1} patches compare equal"
    L.check(f"{tag}.neq-constant-other-shape", constant_shapes)
    L.check(f"{tag}.neq-binning", lambda: None if a != PatchedCounts(flipped, a.counts, auto=auto) else "closed ignored by ==")
    L.check(f"{tag}.immutability", lambda: None if eq_arr((a + b).counts - b.counts, (a.counts + b.counts) - b.counts) else "operands mutated")
    a_np = PatchedCounts(binning, a.counts.copy(), auto=np.bool_(auto))  # the flag as numpy delivers it (e.g. read from a file)
    L.check(f"{tag}.eq-numpy-bool-flag", lambda: None if a == a_np and a_np == a and a.is_compatible(a_np) and eq_arr((a + a_np).counts, a.counts * 2)
            else "containers differing only in bool vs numpy.bool_ flag are unequal / incompatible")
    frozen = {k: snapshot(v) for k, v in (("a", a), ("b", b), ("c", c))}
    laws_inplace(L, tag, [a, b, c], lambda p, q: p + q)
    laws_binwise_patchwise(L, tag, a, lambda o: o.get_array(), rng, None)
    # commute with sampling
    sps = a.sample_patch_sum()
    for s in index_sets(nb, rng)[1][:6]:
        L.check(f"{tag}.bins-commute-sample", lambda s=s: None if (
            eq_arr(a.bins[s].sample_patch_sum().data, sps.data[s])
            and eq_arr(a.bins[s].sample_patch_sum().samples, sps.samples[:, s])) else f"bins[{s}] does not commute with sample_patch_sum")
    for s in index_sets(npatch, rng)[1][:6]:
        L.check(f"{tag}.patches-commute-sum", lambda s=s: None if np.allclose(
            a.patches[s].sample_patch_sum().data, a.counts[:, s, s].sum(axis=(1, 2)), rtol=1e-12, atol=0)
            else f"patches[{s}] does not commute with summation")

    def selection_is_independent():
        # writing pair counts into a selection (the documented way to fill a container) must not reach the parent
        before = snapshot(a)
        for sel in ([a.bins[0:1], a.bins[0], a.bins[::1]] + ([a.bins[1:]] if nb > 1 else []) + [a.patches[0:1], a.patches[:], a.patches[0]]):
            sel.set_patch_pair(0, 0, np.full(sel.num_bins, 12345.678))
            if snapshot(a) != before:
                return "set_patch_pair on a selection changed the container it was selected from"
    L.check(f"{tag}.selection-independent", selection_is_independent)
    L.check(f"{tag}.operands-unchanged", lambda: None if {k: snapshot(v) for k, v in (("a", a), ("b", b), ("c", c))} == frozen
            else "an operation of this family modified its operand")

    # sum weights
    sw1, sw2 = gen.gen_sum_weights(rng, nb, npatch, auto)
    w = PatchedSumWeights(binning, sw1, sw2, auto=auto)
    tag = "PatchedSumWeights"
    L.check(f"{tag}.eq-reflexive", lambda: None if w == w and w == copy.deepcopy(w) else "w != w")
    pw = copy.deepcopy(w)
    pw.sum_weights2[0, 0] += 1.0
    L.check(f"{tag}.neq-perturbed", lambda: None if w != pw else "perturbed compares equal")
    L.check(f"{tag}.neq-auto", lambda: None if w != PatchedSumWeights(binning, sw1, sw2, auto=not auto) else "auto ignored by ==")
    w_np = PatchedSumWeights(binning, sw1.copy(), sw2.copy(), auto=np.bool_(auto))
    L.check(f"{tag}.eq-numpy-bool-flag", lambda: None if w == w_np and w_np == w else "bool vs numpy.bool_ flag makes equal containers unequal")
    L.check("NormalisedCounts.add-numpy-bool-flag", lambda: None if eq_arr((NormalisedCounts(a, w) + NormalisedCounts(a_np, w_np)).counts.counts, a.counts * 2)
            and NormalisedCounts(a, w) == NormalisedCounts(a_np, w_np) else "bool vs numpy.bool_ flag breaks + / ==")
    laws_binwise_patchwise(L, tag, w, lambda o: o.get_array(), rng, None)
    L.check(f"{tag}.bins-subarrays", lambda: None if eq_arr(w.bins[0].sum_weights1, sw1[0:1]) and eq_arr(w.bins[0].sum_weights2, sw2[0:1]) else "bins[0] sum_weights differ")
    L.check(f"{tag}.patches-subarrays", lambda: None if eq_arr(w.patches[0:1].sum_weights1, sw1[:, 0:1]) else "patches[0:1] differ")

    # normalised counts
    tag = "NormalisedCounts"
    na, nb_ = NormalisedCounts(a, w), NormalisedCounts(b, w)
    frozen_n = (snapshot(na), snapshot(nb_), snapshot(w))

    def normalised_array():
        with np.errstate(all="ignore"):
            want = a.get_array() / w.sample_patch_sum().data[:, np.newaxis, np.newaxis]
        for _ in range(2):  # an accessor gives the same answer every time
            if not eq_arr(na.get_array(), want):
                return "get_array() != counts / total product of the sums of weights"
    L.check(f"{tag}.get_array", normalised_array)
    laws_inplace(L, tag, [na, nb_, NormalisedCounts(c, w)], lambda p, q: p + q)
    L.check(f"{tag}.add", lambda: None if eq_arr((na + nb_).counts.counts, a.counts + b.counts) and (na + nb_).sum_weights == w else "a+b differs")
    L.check(f"{tag}.sum", lambda: None if eq_arr(sum([na, nb_, NormalisedCounts(c, w)]).counts.counts, a.counts + b.counts + c.counts) else "sum differs")
    L.raises(f"{tag}.add-other-sum-weights", lambda: na + NormalisedCounts(b, pw))
    L.raises(f"{tag}.add-other-binning", lambda: na + NormalisedCounts(other_bin, PatchedSumWeights(other_bin.binning, sw1, sw2, auto=auto)))
    L.raises(f"{tag}.add-other-type", lambda: na + a)
    for s in SCALARS[:5]:
        L.check(f"{tag}.mul", lambda s=s: None if eq_arr((na * s).counts.counts, a.counts * s) and (na * s).sum_weights == w else f"a*{s} differs")
    L.raises(f"{tag}.mul-bool", lambda: na * True)
    L.check(f"{tag}.eq-reflexive", lambda: None if na == na and na == copy.deepcopy(na) else "a != a")
    L.check(f"{tag}.neq-perturbed", lambda: None if na != NormalisedCounts(pert, w) and na != NormalisedCounts(a, pw) else "perturbed compares equal")
    laws_binwise_patchwise(L, tag, na, lambda o: o.counts.get_array(), rng, None)
    L.check(f"{tag}.bins-sum-weights", lambda: None if na.bins[0].sum_weights == w.bins[0] else "bins[0] sum_weights differ")
    if npatch >= 2:
        for _ in range(3):
            sel = rng.permutation(npatch)[: int(rng.integers(2, npatch + 1))].tolist()

            def list_selection(sel=sel):
                sub = na.patches[sel]
                if not (eq_arr(sub.counts.counts, a.counts[:, sel][:, :, sel]) and eq_arr(sub.sum_weights.sum_weights1, sw1[:, sel])
                        and eq_arr(sub.sum_weights.sum_weights2, sw2[:, sel])):
                    return f"patches[{sel}]: counts and sums of weights are not the sub-arrays in that order"
                want = NormalisedCounts(PatchedCounts(binning, a.counts[:, sel][:, :, sel], auto=auto),
                                        PatchedSumWeights(binning, sw1[:, sel], sw2[:, sel], auto=auto)).sample_patch_sum()
                got = sub.sample_patch_sum()
                if not (eq_arr(got.data, want.data) and eq_arr(got.samples, want.samples)):
                    return f"patches[{sel}] does not commute with sampling"
            L.check(f"{tag}.patches[list]-sample", list_selection)
    sps = na.sample_patch_sum()
    for s in index_sets(nb, rng)[1][:6]:
        L.check(f"{tag}.bins-commute-sample", lambda s=s: None if (
            eq_arr(na.bins[s].sample_patch_sum().data, sps.data[s])
            and eq_arr(na.bins[s].sample_patch_sum().samples, sps.samples[:, s])) else f"bins[{s}] does not commute with sampling")
    L.check(f"{tag}.sample-repeatable", lambda: None if eq_arr(na.sample_patch_sum().data, sps.data) and eq_arr(na.sample_patch_sum().samples, sps.samples)
            else "sample_patch_sum() changes after the accessors were used")
    L.check(f"{tag}.operands-unchanged", lambda: None if (snapshot(na), snapshot(nb_), snapshot(w)) == frozen_n
            else "an operation of this family modified its operand")
    return a, w


def _close(got, ref, scale):
    with np.errstate(all="ignore"):
        ok = np.abs(got - ref) <= 1e-10 * np.maximum(scale, 1.0)
    both_nan = np.isnan(got) & np.isnan(ref)
    same_inf = np.isinf(got) & (got == ref)
    # a denominator that is the rounding residue of cancelling (signed) counts: nothing of the estimate is significant
    illcond = ~np.isfinite(scale) | (scale > 1e9)
    return bool(np.all(ok | both_nan | same_inf | illcond))


def laws_corrfunc(L, rng, nb, npatch, auto):
    from yaw.correlation.corrfunc import CorrFunc

    members = [m for m in ("dr", "rd", "rr") if rng.random() < 0.6] or ["dr"]
    if "rr" in members and "dr" not in members:  # RR without DR is not defined by the statement
        members.insert(0, "dr")
    cf = gen.gen_corrfunc(rng, nb, npatch, auto, members=members, sparsity=0.0)
    # a second one sharing binning and sum_weights (required by NormalisedCounts.__add__)
    parts = {}
    for k, nc in cf.to_dict().items():
        parts[k] = gen.gen_normalised_counts(rng, cf.binning, npatch, auto, sum_weights=nc.sum_weights, sparsity=0.0)
    cf2 = CorrFunc(**parts)
    tag = "CorrFunc"
    frozen = (snapshot(cf), snapshot(cf2))
    L.check(f"{tag}.add", lambda: None if all(
        eq_arr(getattr(cf + cf2, k).counts.counts, getattr(cf, k).counts.counts + getattr(cf2, k).counts.counts)
        for k in cf.to_dict()) and set((cf + cf2).to_dict()) == set(cf.to_dict()) else "a+b differs")
    L.check(f"{tag}.eq-reflexive", lambda: None if cf == cf and cf == copy.deepcopy(cf) else "cf != cf")
    L.check(f"{tag}.neq-other", lambda: None if cf != cf2 else "different counts compare equal")
    if len(members) > 1:
        fewer = CorrFunc(**{k: v for k, v in cf.to_dict().items() if k != members[-1]})
        L.check(f"{tag}.neq-members", lambda: None if cf != fewer and fewer != cf else "missing member ignored by ==")
        # operands holding different sets of pair counts are incompatible in either order: no term is dropped silently
        L.raises(f"{tag}.add-fewer-members-right", lambda: cf + fewer)
        L.raises(f"{tag}.add-fewer-members-left", lambda: fewer + cf)
    other = gen.gen_corrfunc(rng, nb, npatch + 1, auto, members=members)
    L.raises(f"{tag}.add-other-patches", lambda: cf + other)
    L.raises(f"{tag}.add-other-type", lambda: cf + cf.dd)
    ref = cf.sample()
    terms = {k: v.sample_patch_sum() for k, v in cf.to_dict().items()}
    denom = terms["rr"] if "rr" in terms else terms.get("rd", terms.get("dr"))
    with np.errstate(all="ignore"):
        scale_d = sum(np.abs(t.data) for t in terms.values()) / np.abs(denom.data)
        scale_s = sum(np.abs(t.samples) for t in terms.values()) / np.abs(denom.samples)
    for s in (2, 0.5, 1e6, np.float64(7), -2.0, -0.5):
        def f(s=s):
            scaled = cf * s
            for k in cf.to_dict():
                if not eq_arr(getattr(scaled, k).counts.counts, getattr(cf, k).counts.counts * s):
                    return f"(cf*{s}).{k} counts not scaled"
            got = scaled.sample()
            # conditioned comparison (DESIGN §3.2): the estimator cancels terms of size
            # sum|terms|/|denominator|, so that is the scale rounding errors live on
            if not (_close(got.data, ref.data, scale_d) and _close(got.samples, ref.samples, scale_s)):
                return f"(cf*{s}).sample() differs from cf.sample()"
        L.check(f"{tag}.mul", f)
    L.raises(f"{tag}.mul-bool", lambda: cf * True)
    ints, slices = index_sets(nb, rng)
    for s in slices[:8]:
        def f(s=s):
            sub = cf.bins[s]
            for k in cf.to_dict():
                if not eq_arr(getattr(sub, k).counts.counts, getattr(cf, k).counts.counts[s]):
                    return f"bins[{s}].{k} differs"
            got = sub.sample()
            if not (eq_arr(got.data, ref.data[s]) and eq_arr(got.samples, ref.samples[:, s])):
                return f"bins[{s}] does not commute with sample()"
        L.check(f"{tag}.bins[slice]", f)
    for i in ints[:4]:
        L.check(f"{tag}.bins[int]", lambda i=i: None if eq_arr(cf.bins[i].dd.counts.counts, cf.dd.counts.counts[as_slice(i, nb)]) else f"bins[{i}] differs")
    L.check(f"{tag}.bins.iter", lambda: None if len(list(cf.bins)) == nb else "wrong number of bins iterated")
    ints, slices = index_sets(npatch, rng)
    for s in slices[:8]:
        def f(s=s):
            sub = cf.patches[s]
            for k in cf.to_dict():
                if not eq_arr(getattr(sub, k).counts.counts, getattr(cf, k).counts.counts[:, s, s]):
                    return f"patches[{s}].{k} differs"
                if not eq_arr(getattr(sub, k).sum_weights.sum_weights1, getattr(cf, k).sum_weights.sum_weights1[:, s]):
                    return f"patches[{s}].{k} sum_weights differ"
        L.check(f"{tag}.patches[slice]", f)
    for i in ints[:4]:
        sl = as_slice(i, npatch)
        L.check(f"{tag}.patches[int]", lambda i=i, sl=sl: None if eq_arr(cf.patches[i].dd.counts.counts, cf.dd.counts.counts[:, sl, sl]) else f"patches[{i}] differs")
    L.check(f"{tag}.patches.iter", lambda: None if len(list(cf.patches)) == npatch else "wrong number of patches iterated")
    for _ in range(3):
        sel = rng.permutation(npatch)[: int(rng.integers(2, npatch + 1))].tolist()

        def cf_list(sel=sel):
            sub = cf.patches[sel]
            for k in cf.to_dict():
                if not eq_arr(getattr(sub, k).counts.counts, getattr(cf, k).counts.counts[:, sel][:, :, sel]):
                    return f"patches[{sel}].{k} is not the sub-array in that order"
                if not eq_arr(getattr(sub, k).sum_weights.sum_weights1, getattr(cf, k).sum_weights.sum_weights1[:, sel]):
                    return f"patches[{sel}].{k} sums of weights are not the sub-array in that order"
            want = CorrFunc(**{k: getattr(cf, k).patches[sel] for k in cf.to_dict()}).sample()
            got = sub.sample()
            if not (eq_arr(got.data, want.data) and eq_arr(got.samples, want.samples)):
                return f"patches[{sel}] does not commute with sample()"
        L.check(f"{tag}.patches[list]", cf_list)
    L.raises(f"{tag}.bins[out-of-range]", lambda: cf.bins[nb])
    L.raises(f"{tag}.patches[out-of-range]", lambda: cf.patches[npatch])
    laws_inplace(L, tag, [cf, cf2, cf], lambda p, q: p + q, from_zero=False)

    def accessors_then_sample():
        for k, nc in cf.to_dict().items():
            nc.get_array(), nc.counts.get_array(), nc.sum_weights.get_array(), nc.sample_patch_sum()
        again = cf.sample()
        if not (eq_arr(again.data, ref.data) and eq_arr(again.samples, ref.samples)):
            return "sample() differs after the pair-count accessors were used"
    L.check(f"{tag}.sample-repeatable", accessors_then_sample)
    L.check(f"{tag}.operands-unchanged", lambda: None if (snapshot(cf), snapshot(cf2)) == frozen else "an operation modified its operand")


def laws_sampled(L, rng, nb):
    from yaw.correlation.corrdata import CorrData, SampledData
    from yaw.redshifts import HistData, RedshiftData

    for cls in (SampledData, CorrData, HistData, RedshiftData):
        tag = "SampledData" if cls is SampledData else f"CorrData[{cls.__name__}]" if cls is not CorrData else "CorrData"
        a = gen.gen_sampled(rng, cls, nb)
        b = gen.gen_sampled(rng, cls, nb, num_samples=a.num_samples, binning=a.binning)
        L.check(f"{tag}.add", lambda: None if eq_arr((a + b).data, a.data + b.data) and eq_arr((a + b).samples, a.samples + b.samples)
                and type(a + b) is cls and (a + b).binning == a.binning else "a+b differs")
        L.check(f"{tag}.sub", lambda: None if eq_arr((a - b).data, a.data - b.data) and eq_arr((a - b).samples, a.samples - b.samples)
                and (a - b).binning == a.binning else "a-b differs")
        L.raises(f"{tag}.add-other-binning", lambda: a + gen.gen_sampled(rng, cls, nb, num_samples=a.num_samples))
        L.raises(f"{tag}.add-other-samples", lambda: a + gen.gen_sampled(rng, cls, nb, num_samples=a.num_samples + 1, binning=a.binning))
        L.raises(f"{tag}.add-other-type", lambda: a + a.data)
        sp = gen.gen_sampled(rng, cls, nb, special=True)
        L.check(f"{tag}.eq-reflexive", lambda: None if a == a and a == copy.deepcopy(a) and sp == sp and sp == copy.deepcopy(sp) else "a != a")
        pert = copy.deepcopy(a)
        pert.samples[0, 0] += 1.0
        L.check(f"{tag}.neq-perturbed", lambda: None if a != pert else "perturbed compares equal")

        def nonfinite_matters():
            for where in ("data", "samples"):
                for val in (np.nan, np.inf, -np.inf):
                    other = copy.deepcopy(a)
                    arr = getattr(other, where)
                    arr[(0,) * arr.ndim] = val
                    if a == other or not (a != other):
                        return f"a finite and a {val} entry in .{where} compare equal"
                    flip = copy.deepcopy(other)
                    getattr(flip, where)[(0,) * arr.ndim] = -val if np.isinf(val) else 0.5
                    if other == flip:
                        return f"{val} and {getattr(flip, where)[(0,) * arr.ndim]} in .{where} compare equal"
                    if not (other == copy.deepcopy(other)):
                        return f"a container with {val} is not equal to its copy"
        L.check(f"{tag}.eq-nonfinite", nonfinite_matters)
        ints, slices = index_sets(nb, rng)
        for i in ints:
            sl = as_slice(i, nb)
            L.check(f"{tag}.bins[int]", lambda i=i, sl=sl: None if eq_arr(a.bins[i].data, a.data[sl]) and eq_arr(a.bins[i].samples, a.samples[:, sl])
                    and type(a.bins[i]) is cls else f"bins[{i}] differs")
        for i in ints[:3] + [-1]:
            def npint(i=i):
                for t in (np.int64, np.int32, np.intp):
                    sub, want = a.bins[t(i)], a.bins[int(i)]
                    if not (eq_arr(sub.data, want.data) and eq_arr(sub.samples, want.samples) and sub.binning == want.binning and sub == want):
                        return f"bins[{t.__name__}({i})] differs from bins[{i}] (samples shape {sub.samples.shape} vs {want.samples.shape})"
            L.check(f"{tag}.bins[numpy-int]", npint)
        for s in slices:
            def f(s=s):
                sub = a.bins[s]
                lo, hi, _ = s.indices(nb)
                if not (eq_arr(sub.data, a.data[s]) and eq_arr(sub.samples, a.samples[:, s])):
                    return f"bins[{s}] differs"
                if not np.array_equal(sub.binning.edges, a.binning.edges[lo:hi + 1]):
                    return f"bins[{s}] edges differ"
                full_cov = a.covariance[s, s]
                if not np.allclose(sub.covariance, full_cov, rtol=1e-9, atol=1e-12 * np.nanmax(np.abs(full_cov), initial=0.0), equal_nan=True):
                    return f"bins[{s}] does not commute with covariance"
            L.check(f"{tag}.bins[slice]", f)
        L.check(f"{tag}.bins.iter", lambda: None if len(lst := list(a.bins)) == nb and all(
            eq_arr(x.data, a.data[i:i + 1]) for i, x in enumerate(lst)) else "iteration differs")
        sel = a.bins
        L.check(f"{tag}.bins.iter-twice", lambda: None if (len(list(sel)), len(list(sel))) == (nb, nb) else "second iteration of the same selector differs")
        L.raises(f"{tag}.bins[out-of-range]", lambda: a.bins[nb])
        if nb >= 2:
            L.raises(f"{tag}.bins[reversed]", lambda: a.bins[::-1])
        L.raises(f"{tag}.bad-shape", lambda: cls(a.binning, a.data[:-1] if nb > 1 else np.zeros(3), a.samples))
        frozen = (snapshot(a), snapshot(b))
        laws_inplace(L, tag, [a, b], lambda p, q: p + q, minus=lambda p, q: p - q)
        _ = (a.error, a.covariance, a.correlation) if hasattr(a, "correlation") else (a.error, a.covariance)
        L.check(f"{tag}.operands-unchanged", lambda: None if (snapshot(a), snapshot(b)) == frozen else "an operation modified its operand")


def laws_binning(L, rng, nb):
    from yaw.binning import Binning

    b = gen.gen_binning(rng, nb)
    tag = "Binning"
    ints, slices = index_sets(nb, rng)
    for i in ints:
        j = i % nb
        L.check(f"{tag}[int]", lambda i=i, j=j: None if np.array_equal(b[i].edges, b.edges[j:j + 2]) and b[i].closed == b.closed else f"[{i}] differs")
    for s in slices:
        lo, hi, _ = s.indices(nb)
        L.check(f"{tag}[slice]", lambda s=s, lo=lo, hi=hi: None if np.array_equal(b[s].edges, b.edges[lo:hi + 1]) else f"[{s}] differs")
    if nb >= 3:
        for st in (slice(None, None, 2), slice(1, None, 2), slice(None, None, 3), slice(0, nb - 1, 2)):
            want = np.append(b.left[st], b.right[st][-1])  # previous bin expands over the omitted ones
            L.check(f"{tag}[step]", lambda st=st, want=want: None if np.array_equal(b[st].edges, want) and b[st].closed == b.closed
                    else f"[{st}] edges {b[st].edges.tolist()} != {want.tolist()}")
    L.check(f"{tag}.iter", lambda: None if [x.edges.tolist() for x in b] == [b.edges[i:i + 2].tolist() for i in range(nb)] else "iteration differs")
    L.check(f"{tag}.eq", lambda: None if b == b and b == b.copy() and b == copy.deepcopy(b) and len(b) == nb else "b != b")
    L.check(f"{tag}.neq", lambda: None if b != Binning(b.edges + 1e-9, closed=b.closed)
            and b != Binning(b.edges, closed="left" if b.closed == "right" else "right") else "different binnings compare equal")
    L.check(f"{tag}.props", lambda: None if np.array_equal(b.left, b.edges[:-1]) and np.array_equal(b.right, b.edges[1:])
            and np.allclose(b.dz, b.right - b.left) and np.allclose(b.mids, (b.left + b.right) / 2) else "left/right/dz/mids wrong")
    if nb >= 2:
        L.raises(f"{tag}[reversed]", lambda: b[::-1])
        L.raises(f"{tag}[reversed-range]", lambda: b[nb - 1:0:-1] if nb > 2 else b[::-1])
    L.raises(f"{tag}.non-increasing", lambda: Binning(b.edges[::-1]))
    L.raises(f"{tag}.duplicate-edge", lambda: Binning(np.concatenate([b.edges[:1], b.edges])))
    L.raises(f"{tag}.one-edge", lambda: Binning([0.5]))
    L.raises(f"{tag}.2d", lambda: Binning(np.ones((2, 3)).cumsum(axis=1)))
    L.raises(f"{tag}.bad-closed", lambda: Binning(b.edges, closed="both"))


class C17(Check):
    id = "C17"
    level = "exploration"
    rule = (
        "one case = a seeded family of containers (PatchedCounts, PatchedSumWeights, NormalisedCounts, CorrFunc, "
        "SampledData/CorrData/HistData/RedshiftData, Binning) of shape (bins 1..8, patches 1..10, auto/cross, random "
        "optional members, sparse/empty rows) on which every algebra/indexing law is evaluated for all single indices, "
        "contiguous/negative/stepped slices and a scalar set; non-trivial = at least 100 law instances evaluated; "
        "distinct = (bins, patches, auto, seed). icontract invariants run on every public call."
        ' Further laws: augmented assignment, operands unchanged, stepped/list/numpy-integer selections, selections independent of the parent, non-finite equality, constant containers of other shapes, negative scalars, Fraction scalars, CorrFunc operands with different member sets rejected in either order, reversed selections rejected.'
    )
    assumptions = [
        "CorrFunc + CorrFunc with different optional members is not judged (the statement does not define it)",
        "empty slices are not judged",
    ]
    floor_nontrivial = 20
    required_counters = ("law_instances", "inv:PatchedCounts", "inv:SampledData", "inv:Binning", "inv:CorrFunc")
    shards = (8, 16)
    budget = (300, 400)

    def cases(self, tier, seed):
        if tier != "quick":
            yield dict(kind="repo-tests-under-invariants")
        n = 400 if tier == "quick" else 10000
        rng = np.random.default_rng([seed, 17])
        for i in range(n):
            yield dict(seed=seed * 100003 + i, bins=int(rng.integers(1, 9)), patches=int(rng.integers(1, 11)),
                       auto=bool(rng.random() < 0.5))

    def setup_worker(self):
        contracts.install()

    def execute(self, case):
        if case.get("kind") == "repo-tests-under-invariants":
            return self._repo_tests()
        rng = np.random.default_rng([case["seed"], 170])
        nb, npatch, auto = case["bins"], case["patches"], case["auto"]
        L = Laws()
        contracts.drain()
        laws_binning(L, rng, nb)
        laws_counts(L, rng, nb, npatch, auto)
        if npatch >= 2:
            laws_corrfunc(L, rng, nb, npatch, auto)
        laws_sampled(L, rng, nb)
        counters = dict(law_instances=L.n)
        counters.update(contracts.drain())
        out = [result(HELD, cls=f"bins{min(nb, 3)}{'+' if nb > 3 else ''}-{'auto' if auto else 'cross'}",
                      counters=counters, nontrivial=L.n >= 100,
                      sample=dict(case=case, law_instances=L.n))]
        for mech, detail in L.bad.items():
            out.append(result(VIOLATED, mechanism=mech, detail=dict(detail=str(detail), case=case), nontrivial=False))
        return out


def _repo_tests(self):
    """The repository's own tests with the structural invariants enabled: a test that passes
    without them and fails with them points at an invariant broken on a path the tests reach."""
    import json
    import os
    import subprocess
    import tempfile

    from vlib.core import ERROR

    with tempfile.TemporaryDirectory() as d:
        counts = os.path.join(d, "counts.json")
        env = dict(os.environ, PYTHONPATH="/verif:/verif/.deps", YAWVERIF_CONTRACT_COUNTS=counts, YAW_NUM_THREADS="1")
        p = subprocess.run(["/venv/bin/python", "-m", "pytest", "-q", "-p", "no:cacheprovider", "--no-cov", "-p",
                            "engines.pytest_contracts", "-x", "--rootdir", "/repo", "/repo/tests"],
                           cwd=d, env=env, capture_output=True, text=True, timeout=900)
        tail = (p.stdout + p.stderr).strip().splitlines()[-5:]
        evals = json.load(open(counts)) if os.path.exists(counts) else {}
    if p.returncode != 0:
        broken = any("InvariantBroken" in line for line in (p.stdout + p.stderr).splitlines())
        if broken:
            return [result(VIOLATED, mechanism="invariant-broken-under-repo-tests", detail=dict(tail=tail), nontrivial=False)]
        return [result(ERROR, detail=f"repository tests failed under the plugin: {tail}", nontrivial=False)]
    return [result(HELD, cls="repo-tests", counters=dict({f"repo-tests:{k}": v for k, v in evals.items()}, repo_test_runs=1),
                   nontrivial=sum(evals.values()) > 0, key="repo-tests", sample=dict(tail=tail[-1:], invariant_evaluations=evals))]


C17._repo_tests = _repo_tests
CHECK = C17()
