"""
Reference spherical geometry in extended precision (numpy.longdouble, 64-bit
mantissa on x86-64) using the atan2 separation formula, which is well
conditioned at all separations.  Imports numpy only.
"""

from __future__ import annotations

import numpy as np

LD = np.longdouble
PI = LD(np.pi) + LD(1.2246467991473532e-16)  # pi to ~1e-32 (double-double split)


def to_xyz(ra, dec):
    ra = np.asarray(ra, dtype=LD)
    dec = np.asarray(dec, dtype=LD)
    cd = np.cos(dec)
    return np.stack([np.cos(ra) * cd, np.sin(ra) * cd, np.sin(dec)], axis=-1)


def separation_xyz(a, b):
    """atan2(|a x b|, a.b) for arrays of 3-vectors (any float type)."""
    a = np.asarray(a)
    b = np.asarray(b)
    cross = np.cross(a, b)
    num = np.sqrt((cross * cross).sum(axis=-1))
    den = (a * b).sum(axis=-1)
    return np.arctan2(num, den)


def separation(ra1, dec1, ra2, dec2):
    """Angular separation in longdouble.

    Uses the atan2 form of the haversine/Vincenty formula directly on the
    angles (no 3-D rounding), exact to a few ulp(longdouble)."""
    ra1 = np.asarray(ra1, dtype=LD)
    ra2 = np.asarray(ra2, dtype=LD)
    dec1 = np.asarray(dec1, dtype=LD)
    dec2 = np.asarray(dec2, dtype=LD)
    dra = ra2 - ra1
    s1, c1 = np.sin(dec1), np.cos(dec1)
    s2, c2 = np.sin(dec2), np.cos(dec2)
    sd, cd = np.sin(dra), np.cos(dra)
    num = np.sqrt((c2 * sd) ** 2 + (c1 * s2 - s1 * c2 * cd) ** 2)
    den = s1 * s2 + c1 * c2 * cd
    return np.arctan2(num, den)


def separation_f64(ra1, dec1, ra2, dec2):
    """Same in float64 (accurate to ~1e-15), for bulk use by other oracles."""
    dra = ra2 - ra1
    s1, c1 = np.sin(dec1), np.cos(dec1)
    s2, c2 = np.sin(dec2), np.cos(dec2)
    sd, cd = np.sin(dra), np.cos(dra)
    num = np.hypot(c2 * sd, c1 * s2 - s1 * c2 * cd)
    den = s1 * s2 + c1 * c2 * cd
    return np.arctan2(num, den)


def mean_direction(ra, dec, weights=None):
    """Normalised (weighted) mean vector in longdouble and its norm before
    normalisation."""
    xyz = to_xyz(ra, dec)
    if weights is None:
        m = xyz.mean(axis=0)
    else:
        w = np.asarray(weights, dtype=LD)
        m = (xyz * w[:, None]).sum(axis=0) / w.sum()
    norm = np.sqrt((m * m).sum())
    return m / norm, norm
