"""Redshift-bin membership by explicit comparisons (no digitize/histogram)."""

from __future__ import annotations

import numpy as np


def bin_members(z, edges, closed):
    """List of boolean masks, one per bin: lo < z <= hi (closed='right') or
    lo <= z < hi (closed='left')."""
    z = np.asarray(z, dtype=float)
    edges = np.asarray(edges, dtype=float)
    masks = []
    for lo, hi in zip(edges[:-1], edges[1:]):
        if str(closed) == "right":
            masks.append((z > lo) & (z <= hi))
        elif str(closed) == "left":
            masks.append((z >= lo) & (z < hi))
        else:
            raise ValueError(closed)
    return masks


def bin_index(z, edges, closed):
    """Bin index per object, -1 when outside the binning."""
    idx = np.full(len(z), -1, dtype=int)
    for b, m in enumerate(bin_members(z, edges, closed)):
        idx[m] = b
    return idx
