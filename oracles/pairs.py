"""Brute-force pair-count oracle: O(n*m) weight-product sums per
(scale, redshift bin, patch i, patch j), separations from the atan2 formula,
interval (theta_min, theta_max], angles r/D(z_mid) straight from astropy.
Pairs within a relative 1e-10 of an interval edge are *ambiguous*: a lower and
an upper bound are returned.  Imports numpy/astropy only."""

from __future__ import annotations

import numpy as np

from oracles.binrule import bin_members
from oracles.sphere import separation_f64

AMBIG_REL = 1e-10
AMBIG_ABS = 1e-15


def scale_angles(rmin, rmax, unit, z, cosmology):
    """Angles in radian for the scale limits at redshift z."""
    rmin = np.atleast_1d(np.asarray(rmin, dtype=float))
    rmax = np.atleast_1d(np.asarray(rmax, dtype=float))
    if unit == "rad":
        f = 1.0
    elif unit == "deg":
        f = np.pi / 180.0
    elif unit == "arcmin":
        f = np.pi / 180.0 / 60.0
    elif unit == "arcsec":
        f = np.pi / 180.0 / 3600.0
    else:
        if unit in ("kpc", "Mpc"):
            D = cosmology.angular_diameter_distance(z)
        else:
            D = cosmology.comoving_distance(z)
        D = float(getattr(D, "value", D))
        f = (1e-3 if unit.startswith("kpc") else 1.0) / D
    return rmin * f, rmax * f


def fine_grid(theta_lo, theta_hi, resolution):
    """The documented grid for separation weighting: `resolution` logarithmic
    bins spanning all scales, with every scale limit inserted as an edge."""
    lo, hi = np.log10(np.min(theta_lo)), np.log10(np.max(theta_hi))
    g = np.linspace(lo, hi, resolution + 1)
    g = np.unique(np.concatenate([g, np.log10(theta_lo), np.log10(theta_hi)]))
    return 10.0 ** g


def _onehot(pid, P):
    m = np.zeros((len(pid), P))
    m[np.arange(len(pid)), pid] = 1.0
    return m


def _near(S, edge):
    return np.abs(S - edge) <= AMBIG_REL * edge + AMBIG_ABS


def pair_counts(cat1, cat2, P, edges, closed, theta_lo, theta_hi, *, auto=False,
                rweight=None, resolution=None):
    """
    cat1/cat2: dict(ra, dec, w|None, z|None, pid).  cat1 is binned by its
    redshifts; cat2 is binned too if ``cat2['binned']`` is true, else used whole.
    theta_lo/theta_hi: arrays (num_scales, num_bins) in radian.
    Returns lower, upper: arrays (num_scales, num_bins, P, P), and the number of
    pairs inside per (scale, bin) for non-triviality accounting.
    With rweight: each pair contributes w1*w2*mid_k**rweight for its fine bin k
    (unnormalised; the caller fits the per-bin constant).
    """
    nb = len(edges) - 1
    ns = theta_lo.shape[0]
    w1 = np.ones(len(cat1["ra"])) if cat1["w"] is None else cat1["w"]
    w2 = np.ones(len(cat2["ra"])) if cat2["w"] is None else cat2["w"]
    S = separation_f64(cat1["ra"][:, None], cat1["dec"][:, None], cat2["ra"][None, :], cat2["dec"][None, :])
    W = w1[:, None] * w2[None, :]
    M1 = _onehot(cat1["pid"], P)
    M2 = _onehot(cat2["pid"], P)
    sel1 = bin_members(cat1["z"], edges, closed)
    sel2 = bin_members(cat2["z"], edges, closed) if cat2.get("binned") else None

    lower = np.zeros((ns, nb, P, P))
    upper = np.zeros((ns, nb, P, P))
    npairs = np.zeros((ns, nb), dtype=int)
    for b in range(nb):
        rows = sel1[b]
        cols = sel2[b] if sel2 is not None else np.ones(S.shape[1], dtype=bool)
        if not rows.any() or not cols.any():
            continue
        Sb = S[np.ix_(rows, cols)]
        Wb = W[np.ix_(rows, cols)]
        A = M1[rows]
        B = M2[cols]
        if rweight is not None:
            grid = fine_grid(theta_lo[:, b], theta_hi[:, b], resolution)
            mids = 10.0 ** ((np.log10(grid[:-1]) + np.log10(grid[1:])) / 2.0)
            pw = mids ** rweight
            k = np.searchsorted(grid, Sb, side="left") - 1  # (g_k, g_k+1]
            kk = np.clip(k, 0, len(pw) - 1)
            fac = pw[kk]
            # ambiguity: within tolerance of any grid edge -> min/max of neighbours
            amb = np.zeros(Sb.shape, dtype=bool)
            for g in grid:
                amb |= _near(Sb, g)
            k_lo = np.clip(k - 1, 0, len(pw) - 1)
            k_hi = np.clip(k + 1, 0, len(pw) - 1)
            fac_min = np.where(amb, np.minimum(np.minimum(pw[k_lo], pw[k_hi]), fac), fac)
            fac_max = np.where(amb, np.maximum(np.maximum(pw[k_lo], pw[k_hi]), fac), fac)
        for s in range(ns):
            lo, hi = theta_lo[s, b], theta_hi[s, b]
            inside = (Sb > lo) & (Sb <= hi)
            # a lower limit of exactly 0: coincident points (separation exactly 0) are certainly outside (0, hi]
            near_lo = ((Sb > 0) & (Sb <= AMBIG_ABS)) if lo == 0.0 else _near(Sb, lo)
            amb_edge = near_lo | _near(Sb, hi)
            sure = inside & ~amb_edge
            maybe = inside | amb_edge
            npairs[s, b] = int(sure.sum())
            if rweight is None:
                lower[s, b] = A.T @ (Wb * sure) @ B
                upper[s, b] = A.T @ (Wb * maybe) @ B
            else:
                lower[s, b] = A.T @ (Wb * sure * fac_min) @ B
                upper[s, b] = A.T @ (Wb * maybe * fac_max) @ B
    if auto:
        for arr in (lower, upper):
            # unordered pairs once: upper triangle full, diagonal halved, lower zero
            iu = np.triu_indices(P, k=1)
            il = np.tril_indices(P, k=-1)
            arr[:, :, il[0], il[1]] = 0.0
            d = np.arange(P)
            arr[:, :, d, d] *= 0.5
            _ = iu
    return lower, upper, npairs


def sum_weights(cat, P, edges, closed, binned=True):
    """(bins, P) sums of weights per redshift bin and patch."""
    nb = len(edges) - 1
    w = np.ones(len(cat["ra"])) if cat["w"] is None else cat["w"]
    out = np.zeros((nb, P))
    sel = bin_members(cat["z"], edges, closed) if binned else None
    for b in range(nb):
        m = sel[b] if sel is not None else np.ones(len(w), dtype=bool)
        for p in range(P):
            out[b, p] = w[m & (cat["pid"] == p)].sum()
    return out
