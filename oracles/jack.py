"""Leave-one-out oracles by actual deletion, the textbook jackknife covariance,
and the documented estimators written out from the raw arrays.  numpy only."""

from __future__ import annotations

import numpy as np


def delete_patch(arr, k):
    """(bins, P, P) array without row and column k."""
    return np.delete(np.delete(arr, k, axis=1), k, axis=2)


def counts_total(arr):
    """Sum over all patch pairs per bin."""
    return np.array([sum(float(x) for x in arr[b].ravel()) for b in range(arr.shape[0])])


def counts_total_fast(arr):
    return arr.reshape(arr.shape[0], -1).sum(axis=1)


def norm_total(sw1, sw2, auto):
    """Normalisation of a pair count: product of the two samples' total
    weights, half the squared total for an autocorrelation (per bin)."""
    t1 = sw1.sum(axis=1)
    t2 = sw2.sum(axis=1)
    if auto:
        return t1 * t1 / 2.0
    return t1 * t2


def loo_counts(arr):
    """(P, bins): counts total with patch k deleted."""
    P = arr.shape[1]
    return np.array([counts_total_fast(delete_patch(arr, k)) for k in range(P)])


def loo_norm(sw1, sw2, auto):
    P = sw1.shape[1]
    return np.array([
        norm_total(np.delete(sw1, k, axis=1), np.delete(sw2, k, axis=1), auto) for k in range(P)
    ])


def jackknife_cov(samples):
    """(N-1)/N * sum_k (x_k - mean)(x_k - mean)^T, by the double loop."""
    samples = np.asarray(samples, dtype=float)
    n, m = samples.shape
    mean = samples.sum(axis=0) / n
    cov = np.zeros((m, m))
    for k in range(n):
        d = samples[k] - mean
        cov += np.outer(d, d)
    return cov * (n - 1) / n


def estimator(terms):
    """terms: dict kind -> normalised pair counts (arrays).  Returns a list of
    acceptable results (several when the statement allows a choice)."""
    dd = terms["dd"]
    dr, rd, rr = terms.get("dr"), terms.get("rd"), terms.get("rr")
    with np.errstate(all="ignore"):
        if rr is not None:
            if dr is None and rd is None:
                return None  # undefined
            if dr is None:
                dr_, rd_ = rd, rd  # substitution the other way round (accepted if not raising)
            else:
                dr_, rd_ = dr, (dr if rd is None else rd)
            return [((dd - dr_) + (rr - rd_)) / rr]
        out = []
        if dr is not None:
            out.append(dd / dr - 1.0)
        if rd is not None:
            out.append(dd / rd - 1.0)
        return out


def estimator_scale(terms):
    """Size of the quantities that cancel in the estimator, relative to its
    denominator: rounding errors of the result live on this scale."""
    rr = terms.get("rr")
    with np.errstate(all="ignore"):
        if rr is not None:
            return sum(np.abs(t) for t in terms.values()) / np.abs(rr)
        den = [terms[k] for k in ("dr", "rd") if k in terms]
        return np.maximum.reduce([np.abs(terms["dd"]) / np.abs(d) + 1.0 for d in den])
