"""Offline bootstrap of the third-party helpers (icontract, deal) into the
git-ignored /verif/.deps, beside the repository's interpreter."""
from __future__ import annotations

import subprocess
import sys
from pathlib import Path

VERIF = Path(__file__).resolve().parent.parent
DEPS = VERIF / ".deps"
WHEELS = "/opt/veriftools/wheels"


def ensure(verbose: bool = False) -> None:
    if not (DEPS / "icontract").exists():
        DEPS.mkdir(exist_ok=True)
        cmd = [sys.executable, "-m", "pip", "install", "--quiet", "--no-index",
               "--find-links", WHEELS, "--target", str(DEPS), "icontract", "deal"]
        proc = subprocess.run(cmd, capture_output=True, text=True)
        if proc.returncode != 0 and verbose:
            print(proc.stdout, proc.stderr)
    if str(DEPS) not in sys.path:
        sys.path.append(str(DEPS))
