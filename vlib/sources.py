"""Input sources for catalog creation written by the harness (DataFrame, FITS,
HDF5, Parquet) plus recording proxies that log every request the repository's
readers make of them (C18)."""

from __future__ import annotations

import numpy as np


def make_table(rng, n, *, weights=True, redshifts=True, patch=None, degrees=True, dtype="f8",
               centres_xyz=None, spread=None):
    """Columns with unique ids (weight k+0.5, else redshift, else coordinates).
    Returns dict of numpy columns in the requested dtype (coordinates in
    degrees or radian as requested)."""
    from vlib import gen

    if centres_xyz is not None:
        which = rng.integers(0, len(centres_xyz), n)
        xyz = np.empty((n, 3))
        for k in range(len(centres_xyz)):
            m = which == k
            if m.any():
                xyz[m] = gen.cap_points(rng, centres_xyz[k], spread, int(m.sum()))
    else:
        xyz = gen.rand_unit(rng, n)
    ra, dec = gen.xyz_to_radec(xyz)
    if degrees:
        ra, dec = np.rad2deg(ra), np.rad2deg(dec)
    cols = dict(ra=ra, dec=dec)
    if weights:
        cols["w"] = np.arange(n) + 0.5
    if redshifts:
        cols["z"] = (np.arange(n) + 1) / 1024.0 + 0.03125 if not weights else rng.uniform(0.01, 2.0, n)
    if patch is not None:
        cols["patch"] = np.asarray(patch)
    out = {}
    for k, v in cols.items():
        if k == "patch":
            out[k] = v.astype({"f8": "i8", "i8": "i8", "u2": "u2", "u4": "u4"}.get(dtype, "i4"))
        elif dtype in ("u2", "u4") and k == "w":
            out[k] = (np.arange(len(v)) + 1).astype(dtype)  # unique whole-number weights in an unsigned column
        elif dtype in ("i8", "i4") and k in ("w", "z"):
            out[k] = v  # integer dtypes apply to the patch column only
        else:
            out[k] = v.astype(dtype if dtype.startswith("f") or dtype.startswith(">") else "f8")
    return out


def write_source(kind, path, cols, *, row_group_size=None, decoy_rows=None):
    """Write the columns to a file of the given kind and return the path.  FITS with ``decoy_rows``: the
    table goes to extension 2 and extension 1 holds another table (same columns, that many rows)."""
    if kind == "hdf5":
        import h5py

        with h5py.File(path, "w") as f:
            for k, v in cols.items():
                f.create_dataset(k, data=v)
    elif kind == "fits":
        from astropy.io import fits

        def table(cc):
            return fits.BinTableHDU.from_columns([fits.Column(name=k, array=v, format={
                "f8": "D", "f4": "E", "i8": "K", "i4": "J", "i2": "I", "u2": "I", "u4": "J"}[v.dtype.newbyteorder("=").str[1:]],
                **({"bzero": 2 ** (8 * v.dtype.itemsize - 1)} if v.dtype.kind == "u" else {})) for k, v in cc.items()])

        if decoy_rows is None:
            table(cols).writeto(path, overwrite=True)
        else:
            n = len(next(iter(cols.values())))
            idx = np.arange(decoy_rows) % max(n, 1)
            decoy = {k: (v[idx][::-1].copy() if n else v) for k, v in cols.items()}
            fits.HDUList([fits.PrimaryHDU(), table(decoy), table(cols)]).writeto(path, overwrite=True)
    elif kind == "parquet":
        import pyarrow as pa
        from pyarrow import parquet

        table = pa.table({k: pa.array(np.ascontiguousarray(v.astype(v.dtype.newbyteorder("=")))) for k, v in cols.items()})
        if isinstance(row_group_size, (list, tuple)):
            # irregular row groups (files written batch-wise or concatenated): the given sizes, cycled
            n, pos, i = table.num_rows, 0, 0
            with parquet.ParquetWriter(path, table.schema) as writer:
                while pos < n or (n == 0 and i == 0):
                    size = max(1, int(row_group_size[i % len(row_group_size)]))
                    writer.write_table(table.slice(pos, size), row_group_size=size)
                    pos += size
                    i += 1
                    if n == 0:
                        break
        else:
            parquet.write_table(table, path, row_group_size=row_group_size or len(next(iter(cols.values()))))
    else:
        raise ValueError(kind)
    return path


EXT = {"hdf5": ".hdf5", "fits": ".fits", "parquet": ".pqt"}


# ---------------------------------------------------------------------------
# recording proxies (C18)
# ---------------------------------------------------------------------------
class RequestLog:
    def __init__(self):
        self.events = []

    def add(self, **ev):
        self.events.append(ev)


def _slice_bounds(key, n):
    if isinstance(key, slice):
        lo, hi, step = key.indices(n)
        return lo, hi, step
    return None


class RecordingFrame:
    """DataFrame-like: ``len()`` and ``frame[start:end]`` -> real sub-frame;
    any other key is a whole-input request (logged) and served."""

    def __init__(self, df, log: RequestLog, fail_at=None):
        self._df = df
        self._log = log
        self._fail_at = fail_at  # the k-th row request fails once with an I/O error (a transient fault of the source)
        self._row_requests = 0

    def __len__(self):
        return len(self._df)

    def __getitem__(self, key):
        b = _slice_bounds(key, len(self._df))
        if b is not None:
            self._row_requests += 1
            if self._fail_at is not None and self._row_requests - 1 == self._fail_at:
                self._fail_at = None
                self._log.add(op="rows_failed", start=b[0], stop=b[1], step=b[2], n=len(self._df))
                raise OSError(5, "Input/output error (injected)")
            self._log.add(op="rows", start=b[0], stop=b[1], step=b[2], n=len(self._df))
            return self._df[key]
        self._log.add(op="whole", key=repr(key), n=len(self._df))
        return self._df[key]

    def __getattr__(self, name):
        self._log.add(op="attr", key=name, n=len(self._df))
        return getattr(self._df, name)


class _ColumnProxy:
    def __init__(self, col, name, log, n):
        self._col, self._name, self._log, self._n = col, name, log, n

    def __len__(self):
        return len(self._col)

    def __getitem__(self, key):
        b = _slice_bounds(key, self._n)
        if b is not None:
            self._log.add(op="rows", col=self._name, start=b[0], stop=b[1], step=b[2], n=self._n)
        else:
            self._log.add(op="whole", col=self._name, key=repr(key), n=self._n)
        return self._col[key]

    def __array__(self, dtype=None, copy=None):
        # numpy converting the column object = the whole column is read
        self._log.add(op="whole", col=self._name, key="__array__", n=self._n)
        arr = np.asarray(self._col[:])
        return arr if dtype is None else arr.astype(dtype)

    def __iter__(self):
        self._log.add(op="whole", col=self._name, key="__iter__", n=self._n)
        return iter(self._col[:])

    def __getattr__(self, name):
        if name in ("shape", "dtype", "ndim"):
            return getattr(self._col, name)
        self._log.add(op="attr", col=self._name, key=name, n=self._n)
        return getattr(self._col, name)


class TableProxy:
    """Wraps an h5py.File or a FITS record array: ``obj[colname]`` returns a
    column proxy that logs the slices requested of it."""

    def __init__(self, obj, log, n):
        self._obj, self._log, self._n = obj, log, n

    def __getitem__(self, name):
        return _ColumnProxy(self._obj[name], name, self._log, self._n)

    def __len__(self):
        return len(self._obj)

    def close(self):
        return self._obj.close()

    def __getattr__(self, name):
        return getattr(self._obj, name)


class ParquetProxy:
    def __init__(self, pf, log):
        self._pf, self._log = pf, log
        md = pf.metadata
        self._groups = [md.row_group(i).num_rows for i in range(md.num_row_groups)]

    @property
    def metadata(self):
        return self._pf.metadata

    def read_row_group(self, i, columns=None, **kw):
        if 0 <= i < len(self._groups):
            self._log.add(op="row_group", index=int(i), rows=self._groups[i], columns=list(columns) if columns is not None else None)
        else:
            self._log.add(op="row_group_eof", index=int(i))
        return self._pf.read_row_group(i, columns, **kw)

    def read(self, *a, **kw):
        self._log.add(op="whole", key="read()")
        return self._pf.read(*a, **kw)

    def close(self):
        return self._pf.close()

    def __getattr__(self, name):
        if name in ("schema", "schema_arrow", "num_row_groups"):
            return getattr(self._pf, name)
        self._log.add(op="attr", key=name)
        return getattr(self._pf, name)


class instrumented_opens:
    """Context manager: every file the readers open (h5py.File, fits.open, parquet.ParquetFile inside
    yaw.catalog.readers) is wrapped in a recording proxy from the moment it is opened, so requests made
    while the reader is constructed are logged too."""

    def __init__(self, log: RequestLog):
        self.log = log

    def __enter__(self):
        from yaw.catalog import readers

        self._readers = readers
        self._saved = (readers.h5py, readers.fits, readers.parquet)
        log = self.log

        class H5:
            @staticmethod
            def File(path, *a, **kw):
                f = self._saved[0].File(path, *a, **kw)
                n = max((len(f[k]) for k in f.keys()), default=0)
                return TableProxy(f, log, n)

        class Fits:
            @staticmethod
            def open(path, *a, **kw):
                hdul = self._saved[1].open(path, *a, **kw)

                class HDUProxy:
                    def __init__(self_, hdu):
                        self_._hdu = hdu

                    @property
                    def data(self_):
                        d = self_._hdu.data
                        return TableProxy(d, log, len(d))

                class ListProxy:
                    def __getitem__(self_, i):
                        return HDUProxy(hdul[i])

                    def close(self_):
                        return hdul.close()

                return ListProxy()

        class Pq:
            @staticmethod
            def ParquetFile(path, *a, **kw):
                return ParquetProxy(self._saved[2].ParquetFile(path, *a, **kw), log)

        readers.h5py, readers.fits, readers.parquet = H5, Fits, Pq
        return self

    def __exit__(self, *a):
        self._readers.h5py, self._readers.fits, self._readers.parquet = self._saved
        return False


def instrument_reader(reader, log: RequestLog):
    """Replace the handle of a FileReader by a recording proxy."""
    from yaw.catalog import readers

    if isinstance(reader, readers.HDFReader):
        reader._file = TableProxy(reader._file, log, reader.num_records)
    elif isinstance(reader, readers.FitsReader):
        reader._hdu_data = TableProxy(reader._hdu_data, log, reader.num_records)
    elif isinstance(reader, readers.ParquetReader):
        reader._file = ParquetProxy(reader._file, log)
    else:
        raise TypeError(type(reader))
    return reader
