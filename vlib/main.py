"""Dispatcher: python -m vlib.main C07 [--tier quick|thorough] [--replay file]"""
from __future__ import annotations

import argparse
import importlib
import os
import sys
from pathlib import Path

VERIF = Path(__file__).resolve().parent.parent


def find_check(pid: str):
    pid = pid.upper()
    for p in sorted((VERIF / "checks").glob(f"{pid.lower()}_*.py")):
        mod = importlib.import_module(f"checks.{p.stem}")
        return mod.CHECK
    raise SystemExit(f"no check module for {pid}")


def main(argv=None) -> int:
    ap = argparse.ArgumentParser()
    ap.add_argument("property")
    ap.add_argument("--tier", default=os.environ.get("VERIF_TIER", "quick"))
    ap.add_argument("--seed", type=int, default=int(os.environ.get("VERIF_SEED", "0") or 0))
    ap.add_argument("--replay", default=None)
    args = ap.parse_args(argv)
    if args.tier not in ("quick", "thorough"):
        args.tier = "quick"

    from vlib import deps

    deps.ensure()
    from vlib.core import run_check

    check = find_check(args.property)
    return run_check(check, args.tier, args.seed, args.replay)


if __name__ == "__main__":
    sys.exit(main())
