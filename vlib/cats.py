"""Helpers to build small catalogs with the real API and to read them back."""

from __future__ import annotations

import os

import numpy as np

from vlib import gen

os.environ.setdefault("YAW_NUM_THREADS", "1")


def coords_obj(xyz_or_radec):
    """AngularCoordinates from an (N,3) xyz array or (N,2) ra/dec array."""
    from yaw import AngularCoordinates

    a = np.atleast_2d(np.asarray(xyz_or_radec, dtype=float))
    if a.shape[1] == 3:
        ra, dec = gen.xyz_to_radec(a)
        a = np.column_stack([ra, dec])
    return AngularCoordinates(a)


def table(ra, dec, w=None, z=None, patch=None, degrees=True):
    """dict of columns as handed to pandas (angles in radian on input)."""
    cols = dict(ra=np.rad2deg(ra) if degrees else np.asarray(ra),
                dec=np.rad2deg(dec) if degrees else np.asarray(dec))
    if w is not None:
        cols["w"] = np.asarray(w)
    if z is not None:
        cols["z"] = np.asarray(z)
    if patch is not None:
        cols["patch"] = np.asarray(patch)
    return cols


def create(path, cols, *, centers=None, patch_num=None, degrees=True, max_workers=1, **kw):
    """Catalog.from_dataframe on a column dict."""
    import pandas as pd

    from yaw import Catalog

    args = dict(ra_name="ra", dec_name="dec", degrees=degrees, max_workers=max_workers)
    if "w" in cols:
        args["weight_name"] = "w"
    if "z" in cols:
        args["redshift_name"] = "z"
    if centers is not None:
        args["patch_centers"] = centers
    elif patch_num is not None:
        args["patch_num"] = patch_num
    elif "patch" in cols:
        args["patch_name"] = "patch"
    args.update(kw)
    frame = pd.DataFrame(cols)
    # a third of the frames keep the row labels of a larger parent table (what a boolean-mask selection, dropna()
    # or iloc[n:] leaves behind): positions and labels differ
    n = len(frame)
    if n and int(np.asarray(cols["ra"], dtype=float).view(np.uint64).sum() % 3) == 0:
        frame.index = (np.arange(n)[::-1] * 3 + 1000) if n % 2 else (np.arange(n) + 2 * n + 7)
    return Catalog.from_dataframe(path, frame, **args)


def records(catalog):
    """All records of a catalog read back from its cache:
    dict(ra, dec, w (or None), z (or None), pid) concatenated in patch order."""
    ra, dec, w, z, pid = [], [], [], [], []
    has_w = has_z = None
    for p in catalog:
        patch = catalog[p]
        data = patch.load_data()
        names = data.dtype.names
        has_w = "weights" in names
        has_z = "redshifts" in names
        ra.append(data["ra"])
        dec.append(data["dec"])
        if has_w:
            w.append(data["weights"])
        if has_z:
            z.append(data["redshifts"])
        pid.append(np.full(len(data), p))
    out = dict(ra=np.concatenate(ra), dec=np.concatenate(dec), pid=np.concatenate(pid).astype(int))
    out["w"] = np.concatenate(w) if has_w else None
    out["z"] = np.concatenate(z) if has_z else None
    return out


# ---------------------------------------------------------------------------
# sky layouts
# ---------------------------------------------------------------------------
def layout_centres(rng, P, spacing, where="random"):
    """P patch centres (xyz) on a jittered chain/grid with the given angular
    spacing around an anchor: 'random', 'pole', 'wrap' (RA=0), 'equator'."""
    if where == "pole":
        anchor = np.array([0.0, 0.0, rng.choice([-1.0, 1.0])])
    elif where == "wrap":
        anchor = gen.radec_to_xyz(np.array([0.0]), np.array([rng.uniform(-1.0, 1.0)]))[0]
    elif where == "equator":
        anchor = gen.radec_to_xyz(np.array([rng.uniform(0, 2 * np.pi)]), np.array([0.0]))[0]
    else:
        anchor = gen.rand_unit(rng, 1)[0]
    a = np.array([1.0, 0, 0]) if abs(anchor[0]) < 0.9 else np.array([0, 1.0, 0])
    e1 = np.cross(anchor, a)
    e1 /= np.linalg.norm(e1)
    e2 = np.cross(anchor, e1)
    side = int(np.ceil(np.sqrt(P)))
    pts = []
    for k in range(P):
        i, j = divmod(k, side)
        u = (i - (side - 1) / 2) * spacing + rng.normal(0, spacing * 0.05)
        v = (j - (side - 1) / 2) * spacing + rng.normal(0, spacing * 0.05)
        x = anchor + np.tan(u) * e1 + np.tan(v) * e2
        pts.append(x / np.linalg.norm(x))
    pts = np.array(pts)
    if where == "pole":  # put the first centre exactly on the pole
        pts[0] = anchor
    return pts


def points_around(rng, centres, n_each, radius):
    """Points in caps of the given radius (scalar or per-centre) around the
    centres; returns xyz and the index of the generating centre."""
    radius = np.broadcast_to(radius, (len(centres),))
    n_each = np.broadcast_to(n_each, (len(centres),))
    xyz, src = [], []
    for k, c in enumerate(centres):
        if n_each[k] == 0:
            continue
        xyz.append(gen.cap_points(rng, c, float(radius[k]), int(n_each[k])))
        src.append(np.full(int(n_each[k]), k))
    return np.concatenate(xyz), np.concatenate(src)


def nearest_centre(xyz, centres):
    d = ((xyz[:, None, :] - centres[None, :, :]) ** 2).sum(axis=2)
    order = np.sort(d, axis=1)
    margin = np.sqrt(order[:, 1]) - np.sqrt(order[:, 0]) if centres.shape[0] > 1 else np.full(len(xyz), np.inf)
    return d.argmin(axis=1), margin
