"""
Core of the runtime-monitoring framework: case execution, sharding, verdicts,
known-finding classification, evidence and replay files.

A *check* is a subclass of :class:`Check`.  It produces a deterministic stream
of JSON-serialisable *cases* (``cases(tier, seed)``) and judges one case at a
time (``execute(case)``), returning one or more :class:`Result` dicts.  The
runner shards the cases over worker processes of the harness, merges the
results, classifies violations against ``known_findings.txt``, writes
``evidence/<id>.json`` and replay files, prints the verdict lines and returns
the exit code (0 held / 1 violation / 2 inconclusive).
"""

from __future__ import annotations

import faulthandler
import hashlib
import json
import multiprocessing
import os
import shutil
import sys
import tempfile
import time
import traceback
from pathlib import Path

VERIF = Path(__file__).resolve().parent.parent
# validation runs against a scratch copy of the library (YAWVERIF_SRC) must not overwrite the evidence
# of /repo: they write below YAWVERIF_OUT instead
_OUT = Path(os.environ["YAWVERIF_OUT"]) if os.environ.get("YAWVERIF_OUT") else VERIF
EVIDENCE_DIR = _OUT / "evidence"
REPLAY_DIR = _OUT / "replays"
KNOWN_FILE = VERIF / "known_findings.txt"

HELD = "held"
VIOLATED = "violated"
SKIPPED = "skipped"  # case rejected (margin filter, precondition); counted
ERROR = "error"  # harness problem -> inconclusive


def case_bits(case, salt=""):
    """Deterministic integer derived from the whole case description: use it for toggles that must not
    correlate with parameters derived from the case index (i % k patterns)."""
    import hashlib

    return int(hashlib.sha1((json.dumps(case, sort_keys=True, default=str) + "|" + salt).encode()).hexdigest()[:12], 16)


def result(
    status=HELD,
    *,
    mechanism=None,
    detail=None,
    nontrivial=True,
    key=None,
    cls="default",
    counters=None,
    sample=None,
):
    """Build a result record.  ``key`` identifies the case for the
    distinctness count (defaults to the hash of the case)."""
    return dict(
        status=status,
        mechanism=mechanism,
        detail=detail,
        nontrivial=bool(nontrivial),
        key=key,
        cls=cls,
        counters=counters or {},
        sample=sample,
    )


def jsonable(obj):
    """Convert numpy scalars/arrays and paths for json.dump."""
    try:
        import numpy as np
    except ImportError:  # pragma: no cover
        np = None
    if isinstance(obj, dict):
        return {str(k): jsonable(v) for k, v in obj.items()}
    if isinstance(obj, (list, tuple, set, frozenset)):
        return [jsonable(v) for v in obj]
    if np is not None:
        if isinstance(obj, np.ndarray):
            return jsonable(obj.tolist())
        if isinstance(obj, np.generic):
            item = obj.item()
            if isinstance(item, np.generic):  # e.g. numpy.longdouble: .item() returns the scalar itself
                item = float(item) if np.issubdtype(type(item), np.floating) else str(item)
            return jsonable(item)
    if isinstance(obj, float):
        if obj != obj:
            return "nan"
        if obj in (float("inf"), float("-inf")):
            return "inf" if obj > 0 else "-inf"
        return obj
    if isinstance(obj, (str, int, bool)) or obj is None:
        return obj
    if isinstance(obj, Path):
        return str(obj)
    if isinstance(obj, bytes):
        return obj.hex()
    return repr(obj)


def case_hash(case) -> str:
    blob = json.dumps(jsonable(case), sort_keys=True).encode()
    return hashlib.sha1(blob).hexdigest()[:16]


def scratch_root() -> Path:
    base = "/dev/shm" if os.path.isdir("/dev/shm") else tempfile.gettempdir()
    return Path(base)


class Scratch:
    """A scratch directory removed on exit (also on exceptions)."""

    def __init__(self, tag="yv"):
        self.path = Path(tempfile.mkdtemp(prefix=f"yawverif-{tag}-", dir=scratch_root()))

    def __enter__(self):
        return self.path

    def __exit__(self, *a):
        shutil.rmtree(self.path, ignore_errors=True)


def load_known():
    """known_findings.txt -> {property: {mechanism: description}}"""
    known = {}
    if not KNOWN_FILE.exists():
        return known
    for line in KNOWN_FILE.read_text().splitlines():
        line = line.strip()
        if not line.startswith("known:"):
            continue
        body = line[len("known:") :].strip()
        fields, _, desc = body.partition(" — ")
        kv = dict(f.split("=", 1) for f in fields.split() if "=" in f)
        known.setdefault(kv.get("property"), {})[kv.get("mechanism")] = desc.strip()
    return known


class Check:
    id = "C00"
    level = "exploration"
    rule = ""
    assumptions: list[str] = []
    #: minimum number of distinct non-trivial cases for a conclusive verdict
    floor_nontrivial = 2
    #: counters that must be > 0 (monitor reached); else inconclusive
    required_counters: tuple[str, ...] = ()
    #: worker processes for (quick, thorough)
    shards = (8, 16)
    #: wall-clock budget in seconds for (quick, thorough): case generation stops
    budget = (60, 600)
    exhaustive = False

    def cases(self, tier: str, seed: int):
        raise NotImplementedError

    def execute(self, case: dict):
        raise NotImplementedError

    # every k-th case is run once more under "python -O" (quick, thorough); 0 = no such pass
    optimized_stride = (4, 16)

    def setup_worker(self):
        """Called once in every worker process before the first case."""

    def extra_evidence(self, merged) -> dict:
        return {}


def _run_one(check: Check, case: dict):
    try:
        res = check.execute(case)
    except Exception as exc:
        # an exception the harness did not anticipate.  If it was raised by a statement of the library
        # itself (innermost frame inside the yaw package) while the harness used it on an input of the
        # property's domain, the library refused or broke on a valid input: a violation, with the raising
        # function as mechanism.  Anything else (harness code, numpy, the OS) is a harness error.
        tb = traceback.extract_tb(exc.__traceback__)
        inner = tb[-1] if tb else None
        if inner is not None and "/yaw/" in inner.filename.replace("\\", "/") and "/verif/" not in inner.filename:
            res = result(VIOLATED, mechanism=f"library-raises:{type(exc).__name__}:{inner.name}",
                         detail=dict(case=case, error=f"{type(exc).__name__}: {exc}"[:300], traceback=traceback.format_exc(limit=8)[-1500:]),
                         nontrivial=False)
        else:
            res = result(ERROR, detail=traceback.format_exc(limit=12), nontrivial=False)
    if isinstance(res, dict):
        res = [res]
    out = []
    h = case_hash(case)
    for r in res:
        if r.get("key") is None:
            r["key"] = h
        r["case"] = case
        out.append(r)
    return out


def _worker(check: Check, cases: list, out_path: str, deadline: float):
    faulthandler.enable()
    try:  # kill -USR1 <shard pid> prints where a shard is (diagnosis of overruns)
        import signal

        faulthandler.register(signal.SIGUSR1, all_threads=True)
    except (AttributeError, ValueError):
        pass
    os.environ.setdefault("OMP_NUM_THREADS", "1")
    try:
        check.setup_worker()
    except Exception:
        with open(out_path, "w") as f:
            json.dump(
                [dict(status=ERROR, detail=traceback.format_exc(), nontrivial=False,
                      key="setup", cls="setup", counters={}, mechanism=None,
                      sample=None, case={})], f)
        return
    results = []
    truncated = 0
    for case in cases:
        if time.time() > deadline:
            truncated += 1
            continue
        results.extend(_run_one(check, case))
    if truncated:
        results.append(
            dict(status="truncated", n=truncated, nontrivial=False, key="truncated",
                 cls="truncated", counters={}, mechanism=None, detail=None,
                 sample=None, case={}))
    with open(out_path, "w") as f:
        json.dump(jsonable(results), f)


def run_check(check: Check, tier: str, seed: int, replay: str | None = None) -> int:
    t0 = time.time()
    faulthandler.enable()
    os.environ.setdefault("PYTHONHASHSEED", "0")
    os.environ.setdefault("OMP_NUM_THREADS", "1")

    if replay is not None:
        payload = json.loads(Path(replay).read_text())
        case = payload["case"] if "case" in payload else payload
        check.setup_worker()
        res = _run_one(check, case)
        bad = [r for r in res if r["status"] == VIOLATED]
        print(json.dumps(jsonable([{k: r[k] for k in ("status", "mechanism", "detail")} for r in res]), indent=1))
        if bad:
            print(f"VIOLATION property={check.id} replay={replay}")
            return 1
        return 0

    tidx = 0 if tier == "quick" else 1
    nshards = check.shards[tidx]
    budget = check.budget[tidx]
    deadline = t0 + budget

    all_cases = list(check.cases(tier, seed))
    opt_dump = os.environ.get("YAWVERIF_OPTPASS")
    if opt_dump:
        # child of the optimised-interpreter pass (python -O): a stride of the cases, raw results to the parent
        stride = max(1, int(os.environ.get("YAWVERIF_OPTSTRIDE", "4")))
        all_cases = all_cases[::stride]
    if not getattr(check, "exhaustive", False):
        # a budget overrun drops the cases that were not reached: order them by a fixed pseudo-random permutation so
        # that an overrun thins out every stratum alike instead of losing the strata that happen to be generated last
        import random

        random.Random(20240131).shuffle(all_cases)
    results = []
    with Scratch(f"{check.id}-res") as tmp:
        if nshards <= 1:
            out = tmp / "r0.json"
            _worker(check, all_cases, str(out), deadline)
            results = json.loads(out.read_text())
        else:
            procs = []
            ctx = multiprocessing.get_context("fork")
            for i in range(nshards):
                part = all_cases[i::nshards]
                if not part:
                    continue
                out = tmp / f"r{i}.json"
                p = ctx.Process(target=_worker, args=(check, part, str(out), deadline))
                p.start()
                procs.append((p, out, len(part)))
            for p, out, n in procs:
                # generous watchdog: a shard that overruns is inconclusive
                p.join(max(30.0, deadline - time.time() + budget * 2 + 120))
                if p.is_alive():
                    p.kill()
                    p.join()
                    results.append(dict(status=ERROR, detail="shard watchdog fired",
                                        nontrivial=False, key=f"wd{out.name}", cls="watchdog",
                                        counters={}, mechanism=None, sample=None, case={}))
                    continue
                if not out.exists():
                    results.append(dict(status=ERROR,
                                        detail=f"shard died (exit {p.exitcode}) without results",
                                        nontrivial=False, key=f"dead{out.name}", cls="dead",
                                        counters={}, mechanism=None, sample=None, case={}))
                    continue
                results.extend(json.loads(out.read_text()))

    if opt_dump:
        Path(opt_dump).write_text(json.dumps(jsonable(results)))
        return 0
    n_cases = len(all_cases)
    stride = check.optimized_stride[tidx] if getattr(check, "optimized_stride", None) else 0
    if stride:
        # the same cases (every stride-th) once more in an interpreter started with -O: assert statements are
        # removed there, so behaviour that leans on them changes (a legitimate way to run the library)
        import subprocess

        with Scratch(f"{check.id}-opt") as otmp:
            dump = otmp / "results.json"
            env = dict(os.environ, YAWVERIF_OPTPASS=str(dump), YAWVERIF_OPTSTRIDE=str(stride))
            env.pop("PYTHONOPTIMIZE", None)
            try:
                p = subprocess.run([sys.executable, "-O", "-m", "vlib.main", check.id, "--tier", tier, "--seed", str(seed)],
                                   env=env, capture_output=True, text=True, timeout=budget * 3 + 300)
                opt_results = json.loads(dump.read_text()) if dump.exists() else None
            except subprocess.TimeoutExpired:
                opt_results, p = None, None
            if opt_results is None:
                results.append(dict(status=ERROR, detail=f"optimised-interpreter pass produced no results: {(p.stderr[-400:] if p else 'timeout')}",
                                    nontrivial=False, key="optpass", cls="optpass", counters={}, mechanism=None, sample=None, case={}))
            else:
                n_opt = 0
                for r in opt_results:
                    if r.get("status") == "truncated":
                        continue  # the pass is a sample anyway
                    r["cls"] = f"{r.get('cls', 'default')}[python -O]"
                    r["key"] = f"{r.get('key')}[O]"
                    if r.get("status") == VIOLATED:
                        r["mechanism"] = f"{r.get('mechanism')}[python -O]"
                    r["counters"] = {f"{k}": v for k, v in (r.get("counters") or {}).items()}
                    n_opt += 1
                    results.append(r)
                results.append(dict(status=HELD, nontrivial=False, key="optpass-summary", cls="optpass", mechanism=None, detail=None,
                                    sample=None, case={}, counters=dict(optimised_interpreter_results=n_opt)))
    return finish(check, tier, seed, n_cases, results, time.time() - t0)


def finish(check: Check, tier, seed, n_cases, results, wall) -> int:
    known = load_known().get(check.id, {})
    counters: dict[str, float] = {}
    per_cls: dict[str, int] = {}
    per_status: dict[str, int] = {}
    nontrivial_keys = set()
    samples = []
    violations = {}
    errors = []
    truncated = 0
    for r in results:
        st = r["status"]
        if st == "truncated":
            truncated += r.get("n", 0)
            continue
        per_status[st] = per_status.get(st, 0) + 1
        per_cls[r.get("cls", "default")] = per_cls.get(r.get("cls", "default"), 0) + 1
        for k, v in (r.get("counters") or {}).items():
            if isinstance(v, (int, float)):
                counters[k] = counters.get(k, 0) + v
        if st == ERROR:
            errors.append(r)
            continue
        if st != SKIPPED and r.get("nontrivial"):
            nontrivial_keys.add(r["key"])
        if r.get("sample") is not None and len(samples) < 6:
            samples.append(r["sample"])
        if st == VIOLATED:
            violations.setdefault(r.get("mechanism") or "unclassified", []).append(r)

    if not samples:
        for r in results:
            if r.get("case") and r["status"] in (HELD, VIOLATED):
                samples.append(r["case"])
                if len(samples) >= 3:
                    break

    new_viol = {m: rs for m, rs in violations.items() if m not in known}
    known_hit = {m: rs for m, rs in violations.items() if m in known}

    replay_paths = []
    if new_viol:
        d = REPLAY_DIR / check.id
        d.mkdir(parents=True, exist_ok=True)
        for mech, rs in new_viol.items():
            r = rs[0]
            path = d / f"{case_hash([mech, r['case']])}.json"
            path.write_text(json.dumps(jsonable(dict(
                property=check.id, mechanism=mech, detail=r.get("detail"),
                seed=seed, tier=tier, case=r["case"], count=len(rs))), indent=1))
            replay_paths.append((mech, path, len(rs), r.get("detail")))

    missing_counters = [c for c in check.required_counters if counters.get(c, 0) <= 0]
    n_exec = sum(v for k, v in per_status.items())
    inconclusive_reasons = []
    if errors:
        inconclusive_reasons.append(f"{len(errors)} harness errors, first: {errors[0].get('detail')}")
    if len(nontrivial_keys) < check.floor_nontrivial:
        inconclusive_reasons.append(
            f"only {len(nontrivial_keys)} distinct non-trivial cases (floor {check.floor_nontrivial})")
    if missing_counters:
        inconclusive_reasons.append(f"monitors never reached: {missing_counters}")

    coverage = dict(
        evaluations=int(n_exec),
        distinct_nontrivial=len(nontrivial_keys),
        rule=check.rule,
        samples=jsonable(samples) or [{"note": "no sample recorded"}],
        per_class=per_cls,
        per_status=per_status,
        monitor_counters=counters,
        cases_generated=n_cases,
        cases_not_run_budget=truncated,
        known_findings_hit={m: len(rs) for m, rs in known_hit.items()},
        new_violations={m: len(rs) for m, rs in new_viol.items()},
        inconclusive=inconclusive_reasons,
        exhaustive=bool(check.exhaustive),
    )
    try:
        coverage.update(jsonable(check.extra_evidence(dict(counters=counters, results=results))))
    except Exception:
        coverage["extra_evidence_error"] = traceback.format_exc(limit=4)

    evidence = dict(
        property_id=check.id,
        tier=tier,
        seed=int(seed),
        level=check.level,
        coverage=coverage,
        assumptions=list(check.assumptions),
        wall_s=round(wall, 2),
        violations=sum(len(rs) for rs in new_viol.values()),
    )
    EVIDENCE_DIR.mkdir(parents=True, exist_ok=True)
    (EVIDENCE_DIR / f"{check.id}.json").write_text(json.dumps(jsonable(evidence), indent=1))

    print(f"[{check.id}] tier={tier} seed={seed} cases={n_cases} executed={n_exec} "
          f"nontrivial_distinct={len(nontrivial_keys)} statuses={per_status} wall={wall:.1f}s")
    if counters:
        print(f"[{check.id}] monitor counters: " + ", ".join(f"{k}={int(v) if float(v).is_integer() else v}" for k, v in sorted(counters.items())))
    for mech, rs in sorted(known_hit.items()):
        print(f"KNOWN-FINDING: property={check.id} {mech} ({len(rs)} cases) {known[mech]}")
    for mech, path, n, detail in replay_paths:
        print(f"[{check.id}] violation mechanism={mech} cases={n} detail={str(detail)[:300]}")
        print(f"VIOLATION property={check.id} replay={path}")
    for r in inconclusive_reasons:
        print(f"[{check.id}] INCONCLUSIVE: {r}")
    if new_viol:
        return 1
    if inconclusive_reasons:
        return 2
    print(f"[{check.id}] held on everything explored")
    return 0
