"""Shared seeded generators for containers, binnings, catalogs and
configurations.  Everything is a pure function of a numpy Generator."""

from __future__ import annotations

import numpy as np


# --------------------------------------------------------------------------
# binnings and pair-count containers
# --------------------------------------------------------------------------
def gen_edges(rng, num_bins, kind=None):
    kind = kind or rng.choice(["linear", "irregular", "narrow"])
    if kind == "linear":
        lo = rng.uniform(0.0, 1.0)
        hi = lo + rng.uniform(0.1, 2.0)
        return np.linspace(lo, hi, num_bins + 1)
    if kind == "irregular":
        w = rng.uniform(0.01, 1.0, num_bins)
        return rng.uniform(0.0, 0.5) + np.concatenate([[0.0], np.cumsum(w)])
    w = 10.0 ** rng.uniform(-5, -1, num_bins)
    return rng.uniform(0.0, 3.0) + np.concatenate([[0.0], np.cumsum(w)])


def gen_binning(rng, num_bins=None, closed=None):
    from yaw.binning import Binning

    num_bins = num_bins or int(rng.integers(1, 9))
    closed = closed or str(rng.choice(["left", "right"]))
    return Binning(gen_edges(rng, num_bins), closed=closed)


def gen_count_array(rng, num_bins, num_patches, auto, sparsity=None, integer=None, special=False):
    """(bins, P, P) array of pair counts.  auto: upper triangle only (as the
    measurement produces).  sparsity: probability of a zero patch pair."""
    sparsity = rng.choice([0.0, 0.3, 0.8, 1.0], p=[0.4, 0.3, 0.25, 0.05]) if sparsity is None else sparsity
    integer = bool(rng.random() < 0.5) if integer is None else integer
    if integer:
        arr = rng.integers(0, 1000, (num_bins, num_patches, num_patches)).astype(float)
    else:
        arr = rng.uniform(0, 100, (num_bins, num_patches, num_patches))
    mask = rng.random((num_patches, num_patches)) < sparsity
    arr[:, mask] = 0.0
    if rng.random() < 0.2 and num_bins > 1:  # an empty bin
        arr[int(rng.integers(num_bins))] = 0.0
    if rng.random() < 0.2:  # an empty patch (row and column)
        k = int(rng.integers(num_patches))
        arr[:, k, :] = 0.0
        arr[:, :, k] = 0.0
    if rng.random() < 0.25 and num_bins > 1:
        # negative weights are legal: counts of mixed sign that cancel exactly across the bins
        i, j = rng.integers(0, num_patches, 2)
        vals = rng.integers(1, 9, num_bins - 1).astype(float) * rng.choice([-1.0, 1.0], num_bins - 1)
        arr[:, i, j] = np.concatenate([vals, [-vals.sum()]])
        if rng.random() < 0.5:
            k, m = rng.integers(0, num_patches, 2)
            arr[:, k, m] = -np.abs(arr[:, k, m])
    if special and integer and rng.random() < 0.4:
        # whole-number counts with an infinite or astronomically large entry (inf == floor(inf))
        i, j = rng.integers(0, num_patches, 2)
        arr[int(rng.integers(num_bins)), min(i, j), max(i, j)] = float(rng.choice([np.inf, -np.inf, 3e19, 2.0**63, 1e300]))
    if auto:
        arr = np.triu(arr)
    return arr


def gen_sum_weights(rng, num_bins, num_patches, auto, zero_prob=0.05, independent=False):
    """independent: the two weight arrays of an auto container differ (a user-built or merged container;
    measurements always produce equal ones)."""
    sw1 = rng.uniform(0.5, 50, (num_bins, num_patches))
    sw1[rng.random(sw1.shape) < zero_prob] = 0.0
    if auto and not independent:
        sw2 = sw1.copy()
    else:
        sw2 = rng.uniform(0.5, 50, (num_bins, num_patches))
        if rng.random() < 0.5:  # unbinned second catalog: identical rows
            sw2 = np.tile(sw2[0], (num_bins, 1))
        sw2[rng.random(sw2.shape) < zero_prob] = 0.0
    return sw1, sw2


def gen_normalised_counts(rng, binning, num_patches, auto, sum_weights=None, independent_weights=False, **kw):
    from yaw.correlation.paircounts import NormalisedCounts, PatchedCounts, PatchedSumWeights

    nb = len(binning)
    counts = PatchedCounts(binning, gen_count_array(rng, nb, num_patches, auto, **kw), auto=auto)
    if sum_weights is None:
        sw1, sw2 = gen_sum_weights(rng, nb, num_patches, auto, independent=independent_weights)
        sum_weights = PatchedSumWeights(binning, sw1, sw2, auto=auto)
    return NormalisedCounts(counts, sum_weights)


def gen_corrfunc(rng, num_bins=None, num_patches=None, auto=None, members=None, **kw):
    """CorrFunc with a chosen subset of {dr, rd, rr} (members: iterable of
    names; default random non-empty subset)."""
    from yaw.correlation.corrfunc import CorrFunc

    num_bins = num_bins or int(rng.integers(1, 9))
    num_patches = num_patches or int(rng.integers(2, 11))
    auto = bool(rng.random() < 0.4) if auto is None else auto
    binning = gen_binning(rng, num_bins)
    if members is None:
        while True:
            members = [m for m in ("dr", "rd", "rr") if rng.random() < 0.5]
            if members:
                break
    parts = {"dd": gen_normalised_counts(rng, binning, num_patches, auto, **kw)}
    for m in members:
        parts[m] = gen_normalised_counts(rng, binning, num_patches, auto, **kw)
    return CorrFunc(**parts)


def gen_sampled(rng, cls, num_bins=None, num_samples=None, special=False, binning=None):
    num_bins = num_bins or int(rng.integers(1, 9))
    num_samples = num_samples or int(rng.integers(2, 12))
    binning = binning or gen_binning(rng, num_bins)
    scale = 10.0 ** rng.uniform(-9, 12) if special else 1.0
    data = rng.normal(0, 1, num_bins) * scale
    samples = data + rng.normal(0, 0.1, (num_samples, num_bins)) * scale
    if special:
        for arr in (data, samples):
            m = rng.random(arr.shape) < 0.1
            arr[m] = rng.choice([np.nan, np.inf, -np.inf], m.sum())
    return cls(binning, data, samples)


# --------------------------------------------------------------------------
# sky geometry
# --------------------------------------------------------------------------
def rand_unit(rng, n):
    v = rng.normal(size=(n, 3))
    return v / np.linalg.norm(v, axis=1)[:, None]


def xyz_to_radec(xyz):
    xyz = np.atleast_2d(xyz)
    ra = np.arctan2(xyz[:, 1], xyz[:, 0]) % (2 * np.pi)
    ra[ra >= 2 * np.pi] = 0.0
    dec = np.arctan2(xyz[:, 2], np.hypot(xyz[:, 0], xyz[:, 1]))
    return ra, dec


def radec_to_xyz(ra, dec):
    cd = np.cos(dec)
    return np.column_stack([np.cos(ra) * cd, np.sin(ra) * cd, np.sin(dec)])


def cap_points(rng, centre_xyz, radius, n):
    """n points uniform in a spherical cap of the given angular radius."""
    c = np.asarray(centre_xyz, dtype=float)
    c = c / np.linalg.norm(c)
    # orthonormal basis
    a = np.array([1.0, 0, 0]) if abs(c[0]) < 0.9 else np.array([0, 1.0, 0])
    e1 = np.cross(c, a)
    e1 /= np.linalg.norm(e1)
    e2 = np.cross(c, e1)
    cos_t = rng.uniform(np.cos(radius), 1.0, n)
    sin_t = np.sqrt(np.clip(1 - cos_t**2, 0, 1))
    phi = rng.uniform(0, 2 * np.pi, n)
    return (cos_t[:, None] * c + sin_t[:, None] * (np.cos(phi)[:, None] * e1 + np.sin(phi)[:, None] * e2))


def random_rotation(rng):
    q = rng.normal(size=4)
    q /= np.linalg.norm(q)
    a, b, c, d = q
    return np.array([
        [a * a + b * b - c * c - d * d, 2 * (b * c - a * d), 2 * (b * d + a * c)],
        [2 * (b * c + a * d), a * a - b * b + c * c - d * d, 2 * (c * d - a * b)],
        [2 * (b * d - a * c), 2 * (c * d + a * b), a * a - b * b - c * c + d * d],
    ])


def rotation_taking(a, b):
    """Rotation matrix taking unit vector a onto unit vector b."""
    a = a / np.linalg.norm(a)
    b = b / np.linalg.norm(b)
    v = np.cross(a, b)
    s = np.linalg.norm(v)
    c = float(a @ b)
    if s < 1e-12:
        if c > 0:
            return np.eye(3)
        # 180 degrees about any axis orthogonal to a
        o = np.array([1.0, 0, 0]) if abs(a[0]) < 0.9 else np.array([0, 1.0, 0])
        u = np.cross(a, o)
        u /= np.linalg.norm(u)
        return 2 * np.outer(u, u) - np.eye(3)
    vx = np.array([[0, -v[2], v[1]], [v[2], 0, -v[0]], [-v[1], v[0], 0]])
    return np.eye(3) + vx + vx @ vx * ((1 - c) / s**2)
